"""Known findings: genuine defects recorded rather than repaired, keyed by
mechanism (property, monitor rule, class, structural predicate on the
violation's detail) -- never by seed, hash or concrete numbers.  The file is
committed and never written at run time.  'fixed' entries suppress nothing."""
import json
import os

from .common import ROOT

PATH = os.path.join(ROOT, "known_findings.json")


def load():
    try:
        with open(PATH) as f:
            data = json.load(f)
    except FileNotFoundError:
        return [], []
    return ([x for x in data.get("findings", []) if x.get("status") == "open"],
            [x for x in data.get("findings", []) if x.get("status") == "fixed"])


def _matches(entry, v):
    m = entry.get("match", {})
    if entry.get("property") != v.get("prop"):
        return False
    if "rule" in m and m["rule"] != v.get("rule"):
        return False
    cls = (v.get("case") or {}).get("cfg", {}).get("cls")
    if "cls" in m and cls not in m["cls"]:
        return False
    det = v.get("detail") or {}
    for k, want in m.get("detail", {}).items():
        if det.get(k) != want:
            return False
    return True


def classify(violations):
    """Split into (new, known) where known is a list of (entry, [violations])."""
    open_, _fixed = load()
    new = []
    known = {}
    for v in violations:
        for idx, e in enumerate(open_):
            if _matches(e, v):
                known.setdefault(idx, []).append(v)
                break
        else:
            new.append(v)
    return new, [(open_[i], vs) for i, vs in sorted(known.items())]
