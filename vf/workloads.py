"""Workload generators: deterministic grids (complete for their box), seeded
random configurations reaching large n, and boundary / hostile values."""
import random
from fractions import Fraction

COST_VECTORS_QUICK = [
    [1, 1, 2, 2],        # default
    [3, 1, 2, 2],        # uf > ub
    [1, 3, 2, 2],        # ub > uf
    [2, 1, 1, 3],        # wd != rd
    [1, 2, 7, 0],        # rd = 0  (Read [K,0] branch)
    [1, 1, 0, 0],        # free disk
    [0.5, 1, 3, 3],      # fractional forward cost
    [5, 1, 1, 1],        # disk cheaper than one forward step
]
COST_VECTORS_THOROUGH = COST_VECTORS_QUICK + [
    [2, 7, 3, 11], [1, 1, 3, 0], [4, 1, 1, 0], [1, 1, 30, 30],
    [1, 5, 10, 10], [1, 1, 0.25, 0.125], [1, 1, 1, 1],
    [1, 1, 5, 2], [0.25, 4, 0.5, 0.5], [0.125, 1, 1, 0],
]
# non-dyadic vectors: compared with a relative tolerance only
COST_VECTORS_INEXACT = [[0.1, 0.3, 0.7, 0.2], [1, 1, 0.3, 0.1]]


def is_exact(costs):
    """integers and dyadic rationals are exact in binary floating point"""
    for c in costs:
        f = Fraction(c)
        d = f.denominator
        if d & (d - 1):
            return False
        if d > 1024:
            return False
    return True


def random_costs(rng, exact=True):
    kind = rng.randrange(5)
    if kind == 0:
        v = [rng.randint(1, 9), rng.randint(1, 9), rng.randint(0, 12),
             rng.randint(0, 12)]
    elif kind == 1:
        v = [rng.randint(1, 4), rng.randint(1, 4), rng.randint(0, 3),
             rng.randint(0, 3)]
    elif kind == 2:
        v = [rng.choice([0.5, 1, 1.5, 2, 0.25]), rng.choice([0.5, 1, 2, 4]),
             rng.choice([0, 0.5, 1.25, 3, 8]), rng.choice([0, 0.25, 1, 2.5])]
    elif kind == 3:
        v = [1, 1, rng.randint(0, 40), rng.randint(0, 40)]
    else:
        v = [rng.randint(1, 20), rng.randint(1, 3), rng.randint(0, 5),
             rng.randint(0, 60)]
    return v


# ---------------------------------------------------------------- grids
def grid_basic(nmax):
    out = []
    for n in range(1, nmax + 1):
        for c in ("SingleMemory", "SingleDiskCopy", "SingleDiskMove", "None"):
            out.append({"cls": c, "n": n})
        if n in (1, 2, 5, 9):
            # bool-like flags that are not the bool singletons
            for c in ("SingleDiskCopy", "SingleDiskMove"):
                for f in ("np", "int"):
                    out.append({"cls": c, "n": n, "flag": f})
    return out


def grid_twolevel(nmax, pmax, bsmax):
    out = []
    for n in range(1, nmax + 1):
        for p in range(1, pmax + 1):
            for bs in range(0, bsmax + 1):
                for st in ("RAM", "DISK"):
                    for tr in ("maximum", "revolve"):
                        out.append({"cls": "TwoLevel", "n": n, "period": p,
                                    "bs": bs, "storage": st, "traj": tr})
    return out


def grid_multistage(nmax, rmax, dmax):
    out = []
    for n in range(1, nmax + 1):
        for ram in range(0, rmax + 1):
            for disk in range(0, dmax + 1):
                if n > 1 and ram + disk == 0:
                    continue
                for tr in ("maximum", "revolve"):
                    out.append({"cls": "Multistage", "n": n, "ram": ram,
                                "disk": disk, "traj": tr})
    return out


def grid_mixed(nmax, smax):
    out = []
    for n in range(1, nmax + 1):
        for s in range(1, smax + 1):
            for st in ("RAM", "DISK"):
                out.append({"cls": "Mixed", "n": n, "s": s, "storage": st})
        if n == 1:
            for st in ("RAM", "DISK"):
                out.append({"cls": "Mixed", "n": 1, "s": 0, "storage": st})
    return out


def grid_revolve3(nmax, smax, vectors, classes=("Revolve", "DiskRevolve",
                                                "PeriodicDiskRevolve")):
    out = []
    for n in range(1, nmax + 1):
        for s in range(1, smax + 1):
            for v in vectors:
                for c in classes:
                    out.append({"cls": c, "n": n, "ram": s, "costs": list(v)})
    return out


def grid_hrevolve(nmax, smax, dmax, vectors):
    out = []
    for n in range(1, nmax + 1):
        for s in range(1, smax + 1):
            for d in range(0, dmax + 1):
                for v in vectors:
                    out.append({"cls": "HRevolve", "n": n, "ram": s,
                                "disk": d, "costs": list(v)})
    return out


# --------------------------------------------------------------- random
def rand_multistage(rng, k, nmax, umax):
    out = []
    for _ in range(k):
        n = int(2 + rng.random() ** 2 * (nmax - 2))
        ram = rng.randint(0, umax) if rng.random() < 0.8 else 0
        disk = rng.randint(0, umax) if rng.random() < 0.8 else 0
        if ram + disk == 0:
            ram = 1
        out.append({"cls": "Multistage", "n": n, "ram": ram, "disk": disk,
                    "traj": rng.choice(["maximum", "revolve"])})
    return out


def rand_mixed(rng, k, nmax, smax=14):
    out = []
    for _ in range(k):
        n = int(2 + rng.random() ** 2 * (nmax - 2))
        out.append({"cls": "Mixed", "n": n, "s": rng.randint(1, smax),
                    "storage": rng.choice(["RAM", "DISK"])})
    return out


def rand_twolevel(rng, k, nmax, pmax=97):
    out = []
    for _ in range(k):
        n = int(1 + rng.random() ** 2 * (nmax - 1))
        p = rng.choice([1, 2, 3, 5, 7, 8, 16, rng.randint(1, pmax)])
        out.append({"cls": "TwoLevel", "n": n, "period": p,
                    "bs": rng.choice([0, 1, 1, 2, 3, 5, 8]),
                    "storage": rng.choice(["RAM", "DISK"]),
                    "traj": rng.choice(["maximum", "revolve"])})
    return out


def rand_revolve3(rng, k, nmax, smax=8):
    out = []
    for _ in range(k):
        n = int(1 + rng.random() ** 1.5 * (nmax - 1))
        out.append({"cls": rng.choice(["Revolve", "DiskRevolve",
                                       "PeriodicDiskRevolve"]),
                    "n": n, "ram": rng.randint(1, smax),
                    "costs": random_costs(rng)})
    return out


def rand_hrevolve(rng, k, nmax, smax=8, dmax=8):
    out = []
    for _ in range(k):
        n = int(1 + rng.random() ** 1.5 * (nmax - 1))
        out.append({"cls": "HRevolve", "n": n,
                    "ram": rng.choice([1, 1, 2, 2, 3, rng.randint(1, smax)]),
                    "disk": rng.randint(0, dmax),
                    "costs": random_costs(rng)})
    return out


def rand_basic(rng, k, nmax):
    out = []
    for _ in range(k):
        c = rng.choice(["SingleMemory", "SingleDiskCopy", "SingleDiskMove",
                        "None"])
        if c in ("SingleMemory", "None"):
            n = rng.choice([1, 2, 10 ** 3, 10 ** 6, rng.randint(1, 10 ** 6)])
        else:
            n = rng.randint(1, nmax)
        out.append({"cls": c, "n": n})
    return out


# ------------------------------------------------ neighbours and boundaries
CHEAP_DISK = [[5, 1, 1, 1], [1, 1, 0, 0], [4, 1, 1, 0], [3, 1, 1, 1]]


def single_param_neighbours(cfg, rng=None, costs_pool=None):
    """Configurations that differ from cfg in exactly ONE parameter (or swap
    RAM and disk counts keeping the total).  Process-global caches keyed by
    too few parameters are exposed by running these next to each other in
    one process."""
    out = []
    c = cfg["cls"]

    def var(**kw):
        d = dict(cfg)
        d.update(kw)
        out.append(d)
    if "traj" in cfg:
        var(traj="revolve" if cfg["traj"] == "maximum" else "maximum")
    if "storage" in cfg:
        var(storage="RAM" if cfg["storage"] == "DISK" else "DISK")
    if c == "Multistage":
        r, d = cfg["ram"], cfg["disk"]
        if r + d >= 2:
            for rr in {0, 1, (r + d) // 2, r + d - 1, r + d} - {r}:
                if 0 <= rr <= r + d:
                    var(ram=rr, disk=r + d - rr)
        var(ram=r + 1)
        var(disk=d + 1)
    if c == "HRevolve":
        var(disk=cfg["disk"] + 1)
        if cfg["disk"] > 0:
            var(disk=cfg["disk"] - 1)
    if c in ("Revolve", "DiskRevolve", "PeriodicDiskRevolve", "HRevolve"):
        var(ram=cfg["ram"] + 1)
        if cfg["ram"] > 1:
            var(ram=cfg["ram"] - 1)
        base = list(cfg.get("costs") or [1, 1, 2, 2])
        for v in ([base[0] * 3, base[1], base[2], base[3]],
                  [base[0], base[1] * 3, base[2], base[3]],
                  [base[0], base[1], base[3], base[2]],
                  [base[0] * 4, base[1], base[2] * 4, base[3] * 4],
                  [1, 1, 2, 2]):
            if v != base:
                var(costs=v)
    if c == "Mixed":
        var(s=cfg["s"] + 1)
        if cfg["s"] > 1:
            var(s=cfg["s"] - 1)
    if c == "TwoLevel":
        var(period=cfg["period"] + 1)
        var(bs=cfg["bs"] + 1)
        if cfg["bs"] > 0:
            var(bs=cfg["bs"] - 1)
    if c in ("SingleDiskCopy", "SingleDiskMove"):
        other = "SingleDiskMove" if c == "SingleDiskCopy" else "SingleDiskCopy"
        var(cls=other)
        var(cls=other, flag="np")
        var(flag="int")
    if c not in ("SingleMemory", "None"):
        var(n=cfg["n"] + 1)
        if cfg["n"] > 2:
            var(n=cfg["n"] - 1)
    # drop invalid ones
    good = []
    for d in out:
        if d["cls"] == "Multistage" and d["n"] > 1 and \
                d["ram"] + d["disk"] < 1:
            continue
        good.append(d)
    return good


def boundary_cfgs(th):
    """More units than steps, degenerate sizes, cheap and free disk, powers
    of two: the regions where clamping / table-size / cost-regime code is
    exercised."""
    out = []
    vecs = CHEAP_DISK + [[1, 1, 2, 2], [1, 2, 7, 0]]
    for n in range(1, (10 if th else 7)):
        for ram in sorted({1, max(1, n - 1), n, n + 2}):
            for v in vecs:
                for c in ("Revolve", "DiskRevolve", "PeriodicDiskRevolve"):
                    out.append({"cls": c, "n": n, "ram": ram,
                                "costs": list(v)})
                for d in (0, 1, n + 1):
                    out.append({"cls": "HRevolve", "n": n, "ram": ram,
                                "disk": d, "costs": list(v)})
        for (ram, disk) in ((n, n), (n + 2, 0), (0, n + 2), (n - 1, 1),
                            (1, n - 1)):
            if ram < 0 or disk < 0 or (n > 1 and ram + disk < 1):
                continue
            for tr in ("maximum", "revolve"):
                out.append({"cls": "Multistage", "n": n, "ram": ram,
                            "disk": disk, "traj": tr})
        for s in (max(n - 1, 1), n, n + 3):
            for st in ("RAM", "DISK"):
                out.append({"cls": "Mixed", "n": n, "s": s, "storage": st})
        for p in (n, n + 1, 2 * n + 1):
            for bs in (0, n, n + 2):
                out.append({"cls": "TwoLevel", "n": n, "period": p, "bs": bs,
                            "storage": "RAM" if (n + p) % 2 else "DISK",
                            "traj": "maximum"})
    # very large unit counts with few steps (clamping code)
    for n in (1, 2, 5, 9):
        out.append({"cls": "Multistage", "n": n, "ram": 10 ** 6,
                    "disk": 10 ** 6, "traj": "maximum"})
        out.append({"cls": "Multistage", "n": n, "ram": 0, "disk": 10 ** 9,
                    "traj": "revolve"})
        out.append({"cls": "Mixed", "n": n, "s": 10 ** 9, "storage": "RAM"})
        out.append({"cls": "TwoLevel", "n": n, "period": 10 ** 6,
                    "bs": 10 ** 6, "storage": "RAM", "traj": "revolve"})
        out.append({"cls": "Revolve", "n": n, "ram": 60,
                    "costs": [1, 1, 2, 2]})
        out.append({"cls": "HRevolve", "n": n, "ram": 40, "disk": 40,
                    "costs": [2, 1, 1, 3]})
        out.append({"cls": "DiskRevolve", "n": n, "ram": 60,
                    "costs": [5, 1, 1, 1]})
        out.append({"cls": "PeriodicDiskRevolve", "n": n, "ram": 12,
                    "costs": [5, 1, 1, 1]})
    # many units, moderate n
    for n, u in ((40, 20), (60, 33), (90, 25)):
        out.append({"cls": "Multistage", "n": n, "ram": u // 2,
                    "disk": u - u // 2, "traj": "maximum"})
        out.append({"cls": "Mixed", "n": n, "s": u, "storage": "DISK"})
        out.append({"cls": "Revolve", "n": n, "ram": u,
                    "costs": [1, 1, 2, 2]})
        out.append({"cls": "HRevolve", "n": n, "ram": 2, "disk": u,
                    "costs": [3, 1, 1, 1]})
        out.append({"cls": "TwoLevel", "n": n, "period": n + 5, "bs": u,
                    "storage": "DISK", "traj": "maximum"})
    # extreme cost ratios (kept to sizes the planners handle in < 1 s)
    for v, rams in (([1, 1, 8000, 8000], (1, 2)), ([1e-4, 1, 2, 2], (1,)),
                    ([1, 1e6, 2, 2], (1, 2)), ([1e6, 1, 2, 2], (1, 2)),
                    ([1, 1, 20000, 100], (1,)), ([3, 1, 700, 0.5], (1, 2))):
        for ram in rams:
            for n in (3, 9, 20):
                for c in ("Revolve", "DiskRevolve", "PeriodicDiskRevolve"):
                    out.append({"cls": c, "n": n, "ram": ram,
                                "costs": list(v)})
                out.append({"cls": "HRevolve", "n": n, "ram": ram, "disk": 2,
                            "costs": list(v)})
    # long period blocks with several binomial units
    for p_, bs_, tr_ in ((35, 3, "maximum"), (18, 3, "revolve"),
                         (48, 6, "maximum")):
        out.append({"cls": "TwoLevel", "n": 2 * p_ + 7, "period": p_,
                    "bs": bs_, "storage": "RAM", "traj": tr_})
    # more than 1000 checkpoint units
    out.append({"cls": "Multistage", "n": 1500, "ram": 50, "disk": 1350,
                "traj": "revolve"})
    out.append({"cls": "Multistage", "n": 1300, "ram": 600, "disk": 550,
                "traj": "maximum"})
    out.append({"cls": "Mixed", "n": 150, "s": 130, "storage": "RAM"})
    # small / fractional forward cost regimes
    for v in ([0.5, 1, 0, 0], [0.25, 4, 0.5, 0.5], [0.125, 1, 1, 0],
              [0.5, 0.5, 0.25, 0.25]):
        for n in (5, 9, 14, 23):
            for ram in (1, 2, 3):
                for c in ("Revolve", "DiskRevolve", "PeriodicDiskRevolve"):
                    out.append({"cls": c, "n": n, "ram": ram,
                                "costs": list(v)})
                out.append({"cls": "HRevolve", "n": n, "ram": ram, "disk": 2,
                            "costs": list(v)})
    for n in ((255, 256, 257, 258, 259, 260) + ((511, 512, 513, 1024, 1025)
                                                 if th else ())):
        out.append({"cls": "Multistage", "n": n, "ram": 2, "disk": 3,
                    "traj": "maximum"})
        out.append({"cls": "Multistage", "n": n, "ram": 1, "disk": 1,
                    "traj": "revolve"})
        out.append({"cls": "TwoLevel", "n": n, "period": 64, "bs": 2,
                    "storage": "DISK", "traj": "maximum"})
        out.append({"cls": "TwoLevel", "n": n, "period": 256, "bs": 3,
                    "storage": "RAM", "traj": "revolve"})
        out.append({"cls": "SingleDiskCopy", "n": n})
    for n in (257, 259) + ((300, 513) if th else ()):
        out.append({"cls": "Mixed", "n": n, "s": 3, "storage": "DISK"})
        out.append({"cls": "Revolve", "n": n, "ram": 3, "costs": [1, 1, 2, 2]})
        out.append({"cls": "HRevolve", "n": n, "ram": 2, "disk": 2,
                    "costs": [2, 1, 1, 3]})
        out.append({"cls": "DiskRevolve", "n": n, "ram": 2,
                    "costs": [1, 1, 2, 2]})
        out.append({"cls": "PeriodicDiskRevolve", "n": n, "ram": 2,
                    "costs": [1, 1, 2, 2]})
    return out


def with_clusters(cfgs, rng, frac):
    """Follow a fraction of the configurations by their single-parameter
    neighbours (kept adjacent so that they run in the same worker)."""
    out = []
    for c in cfgs:
        out.append(c)
        if rng.random() < frac:
            nb = single_param_neighbours(c, rng)
            rng.shuffle(nb)
            out += nb[:4]
    return out


# ---------------------------------------------------- the common stream set
def stream_cfgs(tier, seed, classes=None, scale=1.0):
    """The shared configuration set of the stream monitors (C01-C04, C08,
    C09, C11, C12, C18): grid first, then the seeded random part."""
    rng = random.Random(1000003 * seed + 17)
    th = tier == "thorough"
    out = []
    if th:
        out += grid_basic(60)
        out += grid_twolevel(30, 7, 4)
        out += grid_multistage(40, 6, 6)
        out += grid_mixed(48, 8)
        out += grid_revolve3(34, 5, COST_VECTORS_THOROUGH[:10])
        out += grid_hrevolve(26, 4, 4, COST_VECTORS_THOROUGH[:10])
        k = int(1500 * scale)
        out += boundary_cfgs(True)
        out += rand_basic(rng, 40, 3000)
        out += with_clusters(rand_multistage(rng, k, 6000, 40), rng, 0.3)
        out += with_clusters(rand_mixed(rng, k // 3, 900), rng, 0.2)
        out += with_clusters(rand_twolevel(rng, k, 3000), rng, 0.3)
        out += with_clusters(rand_revolve3(rng, k, 300), rng, 0.3)
        out += with_clusters(rand_hrevolve(rng, k, 220), rng, 0.3)
    else:
        out += grid_basic(16)
        out += grid_twolevel(14, 4, 2)
        out += grid_multistage(16, 3, 3)
        out += grid_mixed(18, 4)
        out += grid_revolve3(14, 3, COST_VECTORS_QUICK[:4])
        out += grid_hrevolve(13, 2, 3, COST_VECTORS_QUICK[:6])
        k = int(40 * scale)
        out += boundary_cfgs(False)
        out += rand_basic(rng, 12, 500)
        out += with_clusters(rand_multistage(rng, k, 400, 40), rng, 0.5)
        out += with_clusters(rand_mixed(rng, k // 2, 250), rng, 0.3)
        out += with_clusters(rand_twolevel(rng, k, 500), rng, 0.4)
        out += with_clusters(rand_revolve3(rng, k, 110), rng, 0.5)
        out += with_clusters(rand_hrevolve(rng, k, 100), rng, 0.5)
    # NumPy-typed integer parameters: every 11th configuration of the
    # classes with integer constructor arguments (every 4th online basic
    # one, where it is the finalize() argument that is NumPy-typed) is
    # followed by a copy whose integers are passed as numpy.int64
    out2 = []
    for i, c in enumerate(out):
        out2.append(c)
        if "ints" in c or "flag" in c:
            continue
        m = 4 if c["cls"] in ("SingleMemory", "SingleDiskCopy",
                              "SingleDiskMove", "None") else 11
        if (i + seed) % m == 5 and c.get("n", 0) <= 1500:
            d = dict(c)
            d["ints"] = "np"
            out2.append(d)
    out = out2
    if classes is not None:
        out = [c for c in out if c["cls"] in classes]
    return out
