"""Independent oracles, written from the papers (not from the repository
code), in exact arithmetic.  Validated against exhaustive search in
vf/search.py (DESIGN.md 2.4)."""
from fractions import Fraction
from functools import lru_cache
from math import comb, gcd
import sys

sys.setrecursionlimit(100000)


# ---------------------------------------------------------------- binomial
def gw_t(n, s):
    """Unique t >= 0 with C(s+t-1, s) < n <= C(s+t, s)  (n >= 1, s >= 1)."""
    t = 0
    while comb(s + t, s) < n:
        t += 1
    return t


def gw_extra(n, s):
    """Griewank-Walther: minimal number of *extra* forward steps to reverse n
    steps with s restart checkpoints (the one holding the initial state
    included) and one step of adjoint dependencies."""
    if n <= 1:
        return 0
    s = min(s, n - 1)
    if s < 1:
        raise ValueError("no checkpoint for n > 1")
    t = gw_t(n, s)
    return t * n - comb(s + t, s + 1)


def gw_total(n, s):
    return n + gw_extra(n, s)


# ------------------------------------------------------------------- mixed
@lru_cache(maxsize=None)
def mixed_opt(n, s):
    """Maddison (2024): minimal forward steps, each of s units holding either
    a restart checkpoint or the adjoint dependencies of one step."""
    if n <= 0:
        raise ValueError
    s = min(s, n - 1)
    if n <= s + 1:
        return n
    if s < 1:
        raise ValueError
    if s == 1:
        return n * (n + 1) // 2 - 1
    best = 1 + mixed_opt(n - 1, s - 1)
    for i in range(2, n):
        v = i + mixed_opt(i, s) + mixed_opt(n - i, s - 1)
        if v < best:
            best = v
    return best


def mixed_opt_table(nmax, smax):
    """Bottom-up (no recursion) table M[n][s], 1<=n<=nmax, 0<=s<=smax."""
    M = [[None] * (smax + 1) for _ in range(nmax + 1)]
    for n in range(1, nmax + 1):
        for s in range(0, smax + 1):
            se = min(s, n - 1)
            if n <= se + 1:
                M[n][s] = n
            elif se < 1:
                M[n][s] = None
            elif se == 1:
                M[n][s] = n * (n + 1) // 2 - 1
            elif se < s:
                M[n][s] = M[n][se]
            else:
                best = 1 + M[n - 1][s - 1]
                for i in range(2, n):
                    v = i + M[i][s] + M[n - i][s - 1]
                    if v < best:
                        best = v
                M[n][s] = best
    return M


# --------------------------------------------------------------- H-Revolve
def _F(x):
    return x if isinstance(x, Fraction) else Fraction(x)


class HOpt:
    """Opt / Opt' of Herrmann & Pallez (2020) for a two-level hierarchy
    (level 0 = RAM with free access, level 1 = DISK with costs wd, rd), in
    exact arithmetic, bottom-up.

    optp[k][l][m]: x_0 is stored at level k (using one of its m slots) and is
    in the buffer; opt[k][l][m]: x_0 is in the buffer only and must first be
    written somewhere.  Costs follow the paper's convention (the taping
    re-execution of a step is part of ub); the stream cost of the library,
    which charges uf for every Forward step, is opt + uf * (l + 1).

    All costs are scaled by their common denominator D and the tables are
    computed in Python integers; value() divides by D again.
    """

    def __init__(self, lmax, c0, c1, uf, ub, wd, rd):
        fr = [_F(x) for x in (uf, ub, wd, rd)]
        D = 1
        for f in fr:
            D = D * f.denominator // gcd(D, f.denominator)
        D *= 2  # l(l+1)/2 * uf stays integral
        uf, ub, wd, rd = (int(f * D) for f in fr)
        self.D = D
        self.args = (lmax, c0, c1) + tuple(fr)
        INF = None
        cv = (c0, c1)
        w = (0, wd)
        r = (0, rd)
        K = 2
        opt = [[[INF] * (cv[k] + 1) for _ in range(lmax + 1)]
               for k in range(K)]
        optp = [[[INF] * (cv[k] + 1) for _ in range(lmax + 1)]
                for k in range(K)]
        # level 0
        for m in range(c0 + 1):
            opt[0][0][m] = ub
            optp[0][0][m] = ub
        for l in range(1, lmax + 1):
            if c0 >= 1:
                # one slot: x_0 re-read for every step
                optp[0][l][1] = (l + 1) * ub + (l * (l + 1) // 2) * uf \
                    + l * r[0]
                opt[0][l][1] = w[0] + optp[0][l][1]
            for m in range(2, c0 + 1):
                best = optp[0][l][1]
                row_a = opt[0]
                row_b = optp[0]
                for j in range(1, l):
                    v = j * uf + row_a[l - j][m - 1] + r[0] + row_b[j - 1][m]
                    if v < best:
                        best = v
                optp[0][l][m] = best
                opt[0][l][m] = w[0] + best
        # level 1
        for m in range(c1 + 1):
            opt[1][0][m] = ub
            optp[1][0][m] = ub
        for l in range(1, lmax + 1):
            below = opt[0][l][c0]
            opt[1][l][0] = below
            for m in range(1, c1 + 1):
                cands = []
                if below is not None:
                    cands.append(below)
                for j in range(1, l):
                    a = opt[1][l - j][m - 1]
                    b = optp[1][j - 1][m]
                    if a is not None and b is not None:
                        cands.append(j * uf + a + r[1] + b)
                if l == 1:
                    # x_0 on disk, re-read once after reversing step 1
                    cands.append(uf + 2 * ub + r[1])
                best = min(cands) if cands else None
                optp[1][l][m] = best
                if best is None:
                    opt[1][l][m] = below
                elif below is None:
                    opt[1][l][m] = w[1] + best
                else:
                    opt[1][l][m] = min(below, w[1] + best)
        self.opt, self.optp = opt, optp
        self.c0, self.c1 = c0, c1

    def frac(self, v):
        return None if v is None else Fraction(v, self.D)

    def value(self, l):
        return self.frac(self.opt[1][l][self.c1])


def hrev_stream_cost(n, c0, c1, uf, ub, wd, rd):
    """Optimal total cost of an H-Revolve stream for n steps in the library's
    accounting (uf per Forward step, ub per reversed step, wd / rd per DISK
    write / load)."""
    h = HOpt(n - 1, c0, c1, uf, ub, wd, rd)
    v = h.value(n - 1)
    return None if v is None else v + _F(uf) * n


def rev_stream_cost(n, c0, uf, ub):
    v = HOpt(n - 1, c0, 0, uf, ub, 0, 0).value(n - 1)
    return None if v is None else v + _F(uf) * n


class DiskRevOpt:
    """Aupy, Herrmann, Hovland, Robert (2016), Disk-Revolve with every disk
    checkpoint read exactly once and an unbounded number of disk slots:
    Opt_inf(l) = min(Opt_0(l, cm), min_j wd + j uf + Opt_inf(l-j) + rd
                                          + Opt_0(j-1, cm))."""

    def __init__(self, lmax, cm, uf, ub, wd, rd):
        uf, ub, wd, rd = _F(uf), _F(ub), _F(wd), _F(rd)
        h = HOpt(lmax, cm, 0, uf, ub, 0, 0)
        self.opt0 = [h.frac(h.opt[0][l][cm]) for l in range(lmax + 1)]
        oi = [None] * (lmax + 1)
        oi[0] = ub
        for l in range(1, lmax + 1):
            cands = [self.opt0[l]]
            for j in range(1, l):
                cands.append(wd + j * uf + oi[l - j] + rd + self.opt0[j - 1])
            oi[l] = min(cands)
        self.opt_inf = oi
        self.uf = uf

    def stream_cost(self, n):
        return self.opt_inf[n - 1] + self.uf * n


# ------------------------------------------------------ periodic disk revolve
def pdr_period(cm, uf, wd, rd):
    """Aupy & Herrmann (2017): with t the smallest integer such that
    C(cm+1+t, t) * uf > wd + rd, the period is C(cm+t, t)."""
    uf, wd, rd = _F(uf), _F(wd), _F(rd)
    t = 0
    while comb(cm + 1 + t, t) * uf <= wd + rd:
        t += 1
    return comb(cm + t, t)


def pdr_disk_write_steps(n, m):
    """Steps at which the initial sweep writes DISK checkpoints: k*m as long
    as more than m steps of the adjoint-computation graph (l = n-1) remain."""
    l = n - 1
    out = []
    cur = 0
    while l - cur > m:
        out.append(cur)
        cur += m
    return out


def pdr_forward_total(n, s, m):
    """Total forward steps (library accounting) of a periodic schedule:
    sweep over the q disk segments, memory-only Revolve optimum of the final
    remainder and of each of the q segments of length m."""
    q = len(pdr_disk_write_steps(n, m))
    lf = n - q * m
    return q * m + gw_total(lf, s) + q * gw_total(m, s)


# --------------------------------------------------------- small state machines
def finalize_model(known_max_n, told, cur_n, k):
    """Outcome of finalize(k): 'ValueError', 'RuntimeError', 'accept' (max_n
    becomes k) or 'noop'.  `told` = n1 of the last emitted Forward (0 before
    the first), `cur_n` = where the forward stands."""
    if k < 1:
        return "ValueError"
    if known_max_n is None:
        return "accept" if told >= k else "RuntimeError"
    if k == known_max_n and cur_n == known_max_n:
        return "noop"
    return "RuntimeError"
