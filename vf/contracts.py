"""Runtime contracts on the real functions, attached from the harness with
icontract (no repository edit).  Conditions RECORD a violation and return
True, so the observed computation is never aborted and one run can report
several independent problems.  Every contract counts its evaluations; zero
evaluations = "bypassed" and cannot support a "held" verdict."""
import sys
from collections import Counter
from fractions import Fraction

import icontract

from . import oracles as O
from .common import cs, cs_schedule

EVALS = Counter()
LOG = []          # recorded violations: dict(prop, rule, msg, detail)
MAX_LOG = 200
_installed = set()


class ContractBroken(Exception):
    pass


def _rec(prop, rule, msg, **detail):
    if len(LOG) < MAX_LOG:
        LOG.append({"prop": prop, "rule": rule, "msg": msg, "i": None,
                    "action": None, "detail": detail})


def drain():
    out = list(LOG)
    del LOG[:]
    return out


# ------------------------------------------------------------- n_advance
def _pos(_ARGS, _KWARGS, names):
    """Positional binding that does not depend on the callee's parameter
    names staying what they are today (falls back to them for keywords)."""
    vals = list(_ARGS[:len(names)])
    for nm in names[len(vals):]:
        vals.append(_KWARGS[nm])
    return vals


def n_advance_post(_ARGS, _KWARGS, result):
    EVALS["contract.n_advance"] += 1
    try:
        n, snapshots = _pos(_ARGS, _KWARGS, ["n", "snapshots"])
        if n < 2:
            EVALS["contract.n_advance.n_lt_2"] += 1
            return True
        s = max(min(snapshots, n - 1), 1)
        ok_range = 1 <= result <= n - 1
        if not ok_range:
            _rec("C05", "contract.n_advance",
                 f"n_advance({n},{snapshots}) = {result} outside [1, n-1]",
                 n=n, snapshots=snapshots, result=int(result))
            _rec("C13", "contract.n_advance",
                 f"n_advance({n},{snapshots}) = {result} outside [1, n-1]",
                 n=n, snapshots=snapshots, result=int(result))
            return True
        rest = n - result
        if s == 1:
            ok = rest == 1
            lhs = None
        else:
            lhs = result + O.gw_extra(result, s) + O.gw_extra(rest, s - 1)
            ok = lhs == O.gw_extra(n, s)
        if not ok:
            msg = (f"n_advance({n},{snapshots}) = {result} is not a "
                   f"binomially optimal first step (extra {lhs} vs optimum "
                   f"{O.gw_extra(n, s)})")
            _rec("C05", "contract.n_advance", msg, n=n, snapshots=snapshots,
                 result=int(result))
            _rec("C13", "contract.n_advance", msg, n=n, snapshots=snapshots,
                 result=int(result))
    except Exception as e:  # contract machinery must not disturb the run
        _rec("HARNESS", "contract.n_advance", repr(e))
    return True


# ----------------------------------------------------------------- mixed
def mixed_step_post(_ARGS, _KWARGS, result):
    EVALS["contract.mixed_step_memoization"] += 1
    try:
        n, s = _pos(_ARGS, _KWARGS, ["n", "s"])
        from checkpoint_schedules.schedule import StepType
        kind, length, cost = result
        se = min(s, n - 1)
        exp = O.mixed_opt(n, se)
        bad = None
        if cost != exp:
            bad = f"cost {cost} != optimum {exp}"
        elif kind == StepType.FORWARD_REVERSE:
            if n != 1 or length != 1:
                bad = "FORWARD_REVERSE for n != 1"
        elif kind == StepType.WRITE_ADJ_DEPS:
            if length != 1 or n < 2:
                bad = "WRITE_ADJ_DEPS with length != 1"
            elif 1 + O.mixed_opt(n - 1, max(se - 1, 0)) != cost:
                bad = "WRITE_ADJ_DEPS is not an optimal choice"
        elif kind == StepType.WRITE_ICS:
            if not (2 <= length < n):
                bad = f"WRITE_ICS with length {length} not in [2, n)"
            elif length + O.mixed_opt(length, se) + \
                    O.mixed_opt(n - length, se - 1) != cost:
                bad = "WRITE_ICS length is not an optimal choice"
        else:
            bad = f"unexpected step kind {kind!r}"
        if bad:
            for p in ("C06", "C16"):
                _rec(p, "contract.mixed_step_memoization",
                     f"mixed_step_memoization({n},{s}) = "
                     f"({int(kind)},{length},{cost}): {bad}", n=n, s=s)
    except Exception as e:
        _rec("HARNESS", "contract.mixed_step_memoization", repr(e))
    return True


def optimal_steps_mixed_post(_ARGS, _KWARGS, result):
    EVALS["contract.optimal_steps_mixed"] += 1
    try:
        n, s = _pos(_ARGS, _KWARGS, ["n", "s"])
        if result != O.mixed_opt(n, min(s, n - 1)):
            _rec("C06", "contract.optimal_steps_mixed",
                 f"optimal_steps_mixed({n},{s}) = {result}, optimum "
                 f"{O.mixed_opt(n, min(s, n - 1))}", n=n, s=s)
    except Exception as e:
        _rec("HARNESS", "contract.optimal_steps_mixed", repr(e))
    return True


def optimal_extra_steps_post(_ARGS, _KWARGS, result):
    EVALS["contract.optimal_extra_steps"] += 1
    try:
        n, s = _pos(_ARGS, _KWARGS, ["n", "s"])
        if result != O.gw_extra(n, min(s, n - 1)):
            _rec("C05", "contract.optimal_extra_steps",
                 f"optimal_extra_steps({n},{s}) = {result}, Griewank-Walther "
                 f"{O.gw_extra(n, min(s, n - 1))}", n=n, s=s)
    except Exception as e:
        _rec("HARNESS", "contract.optimal_extra_steps", repr(e))
    return True


# --------------------------------------------------------- get_hopt_table
def _close(a, b, exact):
    if a is None or b is None:
        return (a is None or a == float("inf")) and b is None
    if exact:
        return Fraction(a) == b
    return abs(float(a) - float(b)) <= 1e-9 * max(1.0, abs(float(b)))


def hopt_table_post(_ARGS, _KWARGS, result):
    """The 5th and 6th positional arguments are read as the callers mean
    them, (uf, ub), independent of the callee's parameter names."""
    EVALS["contract.get_hopt_table"] += 1
    try:
        args = list(_ARGS)
        if len(args) < 6 or _KWARGS:
            EVALS["contract.get_hopt_table.kwcall"] += 1
            return True
        lmax, cvect, wvect, rvect, uf, ub = args[:6]
        if len(cvect) != 2 or wvect[0] != 0 or rvect[0] != 0:
            return True
        from .workloads import is_exact
        exact = is_exact([uf, ub, wvect[1], rvect[1]])
        h = O.HOpt(lmax, cvect[0], cvect[1], uf, ub, wvect[1], rvect[1])
        optp, opt = result
        for l in range(lmax + 1):
            got = opt[1][l][cvect[1]]
            exp = h.frac(h.opt[1][l][cvect[1]])
            if not _close(got, exp, exact):
                _rec("C07", "contract.get_hopt_table",
                     f"get_hopt_table: Opt_1({l}, c={tuple(cvect)}) = {got} "
                     f"but the hierarchical optimum is {exp} for uf={uf}, "
                     f"ub={ub}, wd={wvect[1]}, rd={rvect[1]}",
                     l=l, cvect=list(cvect), costs=[uf, ub, wvect[1],
                                                    rvect[1]])
                break
    except Exception as e:
        _rec("HARNESS", "contract.get_hopt_table", repr(e))
    return True


def mxrr_post(_ARGS, _KWARGS, result):
    EVALS["contract.mxrr_close_formula"] += 1
    try:
        cm, uf, rd, wd = _pos(_ARGS, _KWARGS, ["cm", "uf", "rd", "wd"])
        exp = O.pdr_period(cm, uf, wd, rd)
        if result != exp:
            _rec("C19", "contract.mxrr_close_formula",
                 f"mxrr_close_formula(cm={cm}, uf={uf}, rd={rd}, wd={wd}) = "
                 f"{result}, Aupy-Herrmann period {exp}", cm=cm)
    except Exception as e:
        _rec("HARNESS", "contract.mxrr_close_formula", repr(e))
    return True


# ---------------------------------------------------------- class invariant
def schedule_invariant(self):
    EVALS["contract.schedule_invariant"] += 1
    try:
        n, r, mx = self._n, self._r, self._max_n
        bad = None
        if r < 0:
            bad = f"r = {r} < 0"
        elif n < 0:
            bad = f"n = {n} < 0"
        elif mx is not None and mx < 1:
            bad = f"max_n = {mx} < 1"
        elif mx is not None and r > mx:
            bad = f"r = {r} > max_n = {mx}"
        if bad:
            _rec("C08", "contract.schedule_invariant",
                 f"{type(self).__name__}: {bad}")
    except AttributeError:
        pass
    except Exception as e:
        _rec("HARNESS", "contract.schedule_invariant", repr(e))
    return True


# ------------------------------------------------------------- finalize
def _wrap_finalize():
    """finalize(k) against the sequential model of C10.  A plain wrapper,
    not icontract: the model also constrains the state after a *raise*,
    which neither icontract nor deal check."""
    orig = cs_schedule.CheckpointSchedule.finalize
    if getattr(orig, "_vf_wrapped", False):
        return

    def finalize(self, n):
        EVALS["contract.finalize"] += 1
        try:
            before = (self.n, self.r, self.max_n)
            exp = O.finalize_model(before[2], before[0], before[0], n)
        except Exception as e:
            exp = None
            before = None
            _rec("HARNESS", "contract.finalize", repr(e))
        exc = None
        try:
            ret = orig(self, n)
        except BaseException as e:
            exc = e
        if exp is not None:
            try:
                after = (self.n, self.r, self.max_n)
                if exc is None:
                    got = "ok"
                else:
                    got = type(exc).__name__
                want = "ok" if exp in ("accept", "noop") else exp
                if got != want:
                    _rec("C10", "contract.finalize.outcome",
                         f"{type(self).__name__}.finalize({n}) with "
                         f"n/r/max_n={before}: outcome {got}, model {exp}",
                         outcome=got, model=exp,
                         max_n_known=before[2] is not None)
                elif exp == "accept":
                    if after != (n, before[1], n):
                        _rec("C10", "contract.finalize.accept_state",
                             f"{type(self).__name__}.finalize({n}) accepted "
                             f"but n/r/max_n went {before} -> {after}")
                else:
                    if after != before:
                        _rec("C10", "contract.finalize.state_unchanged",
                             f"{type(self).__name__}.finalize({n}) [{exp}] "
                             f"changed n/r/max_n {before} -> {after}")
            except Exception as e:
                _rec("HARNESS", "contract.finalize", repr(e))
        if exc is not None:
            raise exc
        return ret

    finalize._vf_wrapped = True
    finalize.__wrapped__ = orig
    finalize.__doc__ = orig.__doc__
    cs_schedule.CheckpointSchedule.finalize = finalize


# ------------------------------------------------------------------ install
def install(which=None):
    """Attach the contracts (idempotent).  which: iterable of names or None
    for all."""
    from checkpoint_schedules import multistage, twolevel_binomial, mixed
    import importlib
    hseq = importlib.import_module(
        "checkpoint_schedules.hrevolve_sequences.hrevolve")
    pdr = importlib.import_module(
        "checkpoint_schedules.hrevolve_sequences.periodic_disk_revolve")
    all_names = ["n_advance", "mixed", "optimal", "hopt", "mxrr",
                 "invariant", "finalize"]
    for name in (which or all_names):
        if name in _installed:
            continue
        _installed.add(name)
        try:
            _install_one(name, multistage, twolevel_binomial, mixed, hseq,
                         pdr)
        except AttributeError as e:
            # the function is gone (refactored away): the contract cannot be
            # attached; its evaluation counter stays at zero
            EVALS["contract.not_installable." + name] += 1


def _install_one(name, multistage, twolevel_binomial, mixed, hseq, pdr):
    if True:
        if name == "n_advance":
            wrapped = icontract.ensure(n_advance_post,
                                       error=ContractBroken)(
                multistage.n_advance)
            multistage.n_advance = wrapped
            twolevel_binomial.n_advance = wrapped
        elif name == "mixed":
            mixed.mixed_step_memoization = icontract.ensure(
                mixed_step_post, error=ContractBroken)(
                mixed.mixed_step_memoization)
        elif name == "optimal":
            mixed.optimal_steps_mixed = icontract.ensure(
                optimal_steps_mixed_post, error=ContractBroken)(
                mixed.optimal_steps_mixed)
            multistage.optimal_extra_steps = icontract.ensure(
                optimal_extra_steps_post, error=ContractBroken)(
                multistage.optimal_extra_steps)
        elif name == "hopt":
            hseq.get_hopt_table = icontract.ensure(
                hopt_table_post, error=ContractBroken)(hseq.get_hopt_table)
        elif name == "mxrr":
            pdr.mxrr_close_formula = icontract.ensure(
                mxrr_post, error=ContractBroken)(pdr.mxrr_close_formula)
        elif name == "invariant":
            icontract.invariant(schedule_invariant, error=ContractBroken)(
                cs_schedule.CheckpointSchedule)
        elif name == "finalize":
            _wrap_finalize()


def snapshot_evals():
    return dict(EVALS)
