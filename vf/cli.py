"""./check <id> [--tier quick|thorough] [--replay PATH] [--jobs N]

Parent: builds the case list of the property, shards it over subprocess
workers (subprocess.run with a timeout, never multiprocessing.Pool), merges
their reports, runs the property's cross-case checker, applies the known
findings file, writes evidence and replay files, and exits
0 (held on what was observed) / 1 (VIOLATION line) / 2 (INCONCLUSIVE line).
"""
import argparse
import hashlib
import importlib
import json
import os
import shutil
import subprocess
import sys
import time
from collections import Counter
from concurrent.futures import ThreadPoolExecutor

from .common import ROOT, REPO

PROPS = [f"C{i:02d}" for i in range(1, 20)]
# evidence/ and replays/ live under /verif; self-tests against scratch copies
# of the repository redirect them so that committed evidence only ever comes
# from runs against /repo itself
OUT = os.environ.get("VERIF_OUT") or ROOT


def load_module(pid):
    return importlib.import_module(f"vf.props.{pid.lower()}")


def jdump(obj, path):
    tmp = path + ".tmp"
    with open(tmp, "w") as f:
        json.dump(obj, f, indent=1, default=str, sort_keys=True)
        f.write("\n")
    os.replace(tmp, path)


# ---------------------------------------------------------------- worker
def worker_main(pid, tier, seed, shard_file, out_file):
    mod = load_module(pid)
    with open(shard_file) as f:
        cases = json.load(f)
    ctx = mod.make_context(tier, seed) if hasattr(mod, "make_context") else {}
    rep = {"violations": [], "evals": Counter(), "cases": 0,
           "nontrivial_keys": [], "samples": [], "aux": [],
           "contracts": Counter(), "errors": [], "counters": Counter()}
    t0 = time.time()
    for case in cases:
        try:
            r = mod.run_case(case, ctx)
        except Exception as e:  # harness failure: never a verdict
            import traceback
            rep["errors"].append({"case": case, "error": repr(e),
                                  "tb": traceback.format_exc()[-1500:]})
            continue
        rep["cases"] += 1
        for v in r.get("violations", []):
            v = dict(v)
            v["case"] = case
            rep["violations"].append(v)
        rep["evals"].update(r.get("evals", {}))
        rep["counters"].update(r.get("counters", {}))
        if r.get("nontrivial"):
            rep["nontrivial_keys"].append(r.get("key") or
                                          json.dumps(case, sort_keys=True))
        if "aux" in r:
            rep["aux"].append(r["aux"])
        if r.get("sample") is not None and len(rep["samples"]) < 3:
            rep["samples"].append(r["sample"])
    if hasattr(mod, "close_context"):
        extra = mod.close_context(ctx) or {}
        rep["contracts"].update(extra.get("contracts", {}))
        rep["counters"].update(extra.get("counters", {}))
        for v in extra.get("violations", []):
            rep["violations"].append(v)
        if "probes" in extra:
            rep["probes"] = extra["probes"]
    rep["wall_s"] = time.time() - t0
    rep["evals"] = dict(rep["evals"])
    rep["contracts"] = dict(rep["contracts"])
    rep["counters"] = dict(rep["counters"])
    jdump(rep, out_file)


# ---------------------------------------------------------------- parent
def run_workers(pid, tier, seed, cases, jobs, timeout, block=1):
    work = os.path.join(ROOT, ".work", f"{pid}-{os.getpid()}")
    os.makedirs(work, exist_ok=True)
    jobs = max(1, min(jobs, len(cases)))
    # Locality-preserving sharding: contiguous blocks of neighbouring cases
    # are dealt round-robin, so that configurations which differ in a single
    # parameter run one after the other in the SAME worker process -- this is
    # what exposes cross-talk through process-global state (memo tables,
    # shared sequences) to every check, not only to C15.
    block = max(1, int(block))
    shards = [[] for _ in range(jobs)]
    for b, start in enumerate(range(0, len(cases), block)):
        shards[b % jobs] += cases[start:start + block]
    shards = [sh for sh in shards if sh]
    jobs = len(shards)
    procs = []
    env = dict(os.environ)
    env["VERIF_SEED"] = str(seed)
    env["VERIF_TIER"] = tier

    def one(i):
        sf = os.path.join(work, f"shard{i}.json")
        of = os.path.join(work, f"out{i}.json")
        with open(sf, "w") as f:
            json.dump(shards[i], f)
        cmd = [sys.executable, "-B", "-m", "vf.cli", "--worker", pid, tier,
               str(seed), sf, of]
        try:
            p = subprocess.run(cmd, env=env, timeout=timeout,
                               capture_output=True, text=True)
        except subprocess.TimeoutExpired:
            return {"timeout": True, "shard": i}
        if p.returncode != 0 or not os.path.exists(of):
            return {"crash": True, "shard": i, "rc": p.returncode,
                    "stderr": p.stderr[-3000:], "stdout": p.stdout[-1000:]}
        with open(of) as f:
            return json.load(f)

    with ThreadPoolExecutor(max_workers=jobs) as ex:
        reports = list(ex.map(one, range(jobs)))
    shutil.rmtree(work, ignore_errors=True)
    return reports


def merge(reports):
    m = {"violations": [], "evals": Counter(), "cases": 0,
         "nontrivial_keys": set(), "samples": [], "aux": [],
         "contracts": Counter(), "errors": [], "counters": Counter(),
         "probes": {}, "problems": []}
    for r in reports:
        if r.get("timeout") or r.get("crash"):
            m["problems"].append(r)
            continue
        m["violations"] += r["violations"]
        m["evals"].update(r["evals"])
        m["contracts"].update(r["contracts"])
        m["counters"].update(r["counters"])
        m["cases"] += r["cases"]
        m["nontrivial_keys"].update(r["nontrivial_keys"])
        m["samples"] += r["samples"]
        m["aux"] += r["aux"]
        m["errors"] += r["errors"]
        for k, v in (r.get("probes") or {}).items():
            m["probes"][k] = m["probes"].get(k, 0) + v
    return m


def write_replay(pid, v):
    os.makedirs(os.path.join(OUT, "replays"), exist_ok=True)
    blob = json.dumps({"case": v.get("case"), "rule": v.get("rule")},
                      sort_keys=True, default=str)
    dig = hashlib.sha1(blob.encode()).hexdigest()[:12]
    path = os.path.join(OUT, "replays", f"{pid}-{dig}.json")
    jdump({"property": pid, "violation": v, "case": v.get("case")}, path)
    return path


def replay(pid, path):
    mod = load_module(pid)
    with open(path) as f:
        rec = json.load(f)
    case = rec["case"]
    ctx = mod.make_context("quick", 0) if hasattr(mod, "make_context") else {}
    if case is None:
        print("replay record has no single case (cross-case finding):")
        print(json.dumps(rec["violation"], indent=1, default=str))
        return 1
    r = mod.run_case(case, ctx)
    vs = [v for v in r.get("violations", []) if v.get("prop") == pid]
    for v in vs:
        print(f"VIOLATION property={pid} replay={path}")
        print("  ", v.get("rule"), "|", v.get("msg"), "| action", v.get("i"),
              v.get("action"))
    if not vs:
        print(f"replay of {path}: no violation of {pid} reproduced")
    return 1 if vs else 0


def main(argv=None):
    argv = sys.argv[1:] if argv is None else argv
    if argv and argv[0] == "--worker":
        worker_main(argv[1], argv[2], int(argv[3]), argv[4], argv[5])
        return 0
    ap = argparse.ArgumentParser()
    ap.add_argument("prop")
    ap.add_argument("--tier", default=os.environ.get("VERIF_TIER") or "quick")
    ap.add_argument("--replay")
    ap.add_argument("--jobs", type=int,
                    default=int(os.environ.get("VERIF_JOBS", "16")))
    ap.add_argument("--keep-going", action="store_true")
    a = ap.parse_args(argv)
    pid = a.prop.upper()
    if pid not in PROPS:
        print(f"unknown property {pid}")
        return 2
    tier = a.tier if a.tier in ("quick", "thorough") else "quick"
    try:
        seed = int(os.environ.get("VERIF_SEED", "0") or 0)
    except ValueError:
        seed = 0
    if a.replay:
        return replay(pid, a.replay)

    from . import findings
    mod = load_module(pid)
    t0 = time.time()
    cases = mod.cases(tier, seed)
    timeout = mod.TIMEOUT[tier] if hasattr(mod, "TIMEOUT") else \
        (900 if tier == "quick" else 5400)
    # oracle validation runs in the parent while the workers work
    ov = None
    ov_fut = None
    pool = ThreadPoolExecutor(max_workers=1)
    if getattr(mod, "USES_ORACLES", False):
        def _ov():
            p = subprocess.run(
                [sys.executable, "-B", "-c",
                 "import json;from vf.search import validate_oracles as v;"
                 f"c,m=v({1 if tier == 'thorough' else 0});"
                 "print(json.dumps({'cases':c,'mismatches':m},default=str))"],
                capture_output=True, text=True, timeout=3000)
            return json.loads(p.stdout.strip().splitlines()[-1])
        ov_fut = pool.submit(_ov)
    reports = run_workers(pid, tier, seed, cases, a.jobs, timeout,
                          getattr(mod, "BLOCK", 1))
    m = merge(reports)
    if ov_fut is not None:
        try:
            ov = ov_fut.result()
        except Exception as e:
            ov = {"cases": 0, "mismatches": [f"oracle validation failed: {e!r}"]}
    pool.shutdown()
    inconclusive = []
    extra_cov = {}
    if hasattr(mod, "finish"):
        fin = mod.finish(m, tier, seed) or {}
        m["violations"] += fin.get("violations", [])
        inconclusive += fin.get("inconclusive", [])
        extra_cov = fin.get("coverage", {})
    # keep only this property's violations
    mine = [v for v in m["violations"] if v.get("prop") == pid]
    others = Counter(v.get("prop") for v in m["violations"]
                     if v.get("prop") != pid)
    new, known = findings.classify(mine)
    # inconclusive conditions
    for r in m["problems"]:
        inconclusive.append(
            "shard timed out" if r.get("timeout") else
            f"shard crashed rc={r.get('rc')}: {r.get('stderr', '')[-400:]}")
    if m["errors"]:
        inconclusive.append(f"{len(m['errors'])} harness errors, first: "
                            f"{m['errors'][0]['error']} "
                            f"{m['errors'][0]['tb'][-600:]}")
    for rule in getattr(mod, "REQUIRED", []):
        cnt = (m["evals"].get(rule, 0) + m["contracts"].get(rule, 0)
               + m["counters"].get(rule, 0) + m["probes"].get(rule, 0))
        if cnt == 0:
            inconclusive.append(f"deciding monitor never reached: {rule}")
    if ov is not None and ov.get("mismatches"):
        inconclusive.append("oracle validation against exhaustive search "
                            f"failed: {ov['mismatches'][:3]}")
    wall = time.time() - t0
    nontrivial = len(m["nontrivial_keys"])
    cov = {
        "evaluations": int(m["cases"]),
        "distinct_nontrivial": int(nontrivial),
        "rule": getattr(mod, "RULE", ""),
        "samples": m["samples"][:6] or [c for c in cases[:3]],
        "monitor_rule_evaluations": {k: v for k, v in
                                     sorted(m["evals"].items())
                                     if k.startswith(pid + ".") or
                                     k in getattr(mod, "REQUIRED", [])},
        "contract_evaluations": dict(sorted(m["contracts"].items())),
        "counters": dict(sorted(m["counters"].items())),
        "reach_probes": dict(sorted(m["probes"].items())),
        "violations_of_other_properties_seen": dict(others),
        "known_findings_matched": [
            {"what": e.get("what"), "count": len(vs)} for e, vs in known],
        "inconclusive_reasons": inconclusive,
        "jobs": a.jobs,
        "exhaustive": bool(getattr(mod, "EXHAUSTIVE", {}).get(tier, False)),
    }
    if ov is not None:
        cov["oracle_validation"] = {"cases": ov.get("cases"),
                                    "mismatches": len(ov.get("mismatches",
                                                             []))}
    cov.update(extra_cov)
    ev = {
        "property_id": pid, "tier": tier, "seed": seed,
        "level": getattr(mod, "LEVEL", "exploration"),
        "coverage": cov,
        "assumptions": getattr(mod, "ASSUMPTIONS", []),
        "wall_s": round(wall, 2),
        "violations": len(new),
    }
    os.makedirs(os.path.join(OUT, "evidence"), exist_ok=True)
    jdump(ev, os.path.join(OUT, "evidence", f"{pid}.json"))

    print(f"[{pid}] tier={tier} seed={seed} cases={m['cases']} "
          f"nontrivial={nontrivial} wall={wall:.1f}s "
          f"rule_evals={sum(v for k, v in m['evals'].items() if k.startswith(pid))}"
          f" contracts={sum(m['contracts'].values())}")
    for e, vs in known:
        print(f"KNOWN-FINDING: property={pid} {e.get('what')} "
              f"({len(vs)} occurrences)")
    if new:
        seen = set()
        shown = 0
        for v in new:
            k = (v.get("rule"), (v.get("case") or {}).get("cfg", {}).get("cls")
                 if isinstance(v.get("case"), dict) else None)
            if k in seen and shown >= 3:
                continue
            seen.add(k)
            if shown < 12:
                path = write_replay(pid, v)
                print(f"VIOLATION property={pid} replay={path}")
                print(f"   rule={v.get('rule')} :: {v.get('msg')} :: "
                      f"action#{v.get('i')} {v.get('action')} :: case="
                      f"{json.dumps(v.get('case'), default=str)[:300]}")
                shown += 1
        print(f"[{pid}] {len(new)} violation(s) in total")
        return 1
    if inconclusive:
        for r in inconclusive:
            print(f"INCONCLUSIVE property={pid} reason={r}")
        return 2
    print(f"[{pid}] held on everything explored")
    return 0


if __name__ == "__main__":
    sys.exit(main())
