"""Run (part of) the repository's own test-suite under the contract layer
and report what the contracts observed there."""
import json
import os
import subprocess
import sys
import tempfile

from .common import REPO, ROOT


def run_suite(test_file, jobs=4, timeout=2400):
    fd, log = tempfile.mkstemp(prefix="vfsuite-", suffix=".jsonl")
    os.close(fd)
    env = dict(os.environ)
    env["CHECKPOINT_SCHEDULES_VERIF"] = "1"
    env["VF_CONTRACT_LOG"] = log
    cmd = [sys.executable, "-B", "-m", "pytest", "-q", "-p",
           "no:cacheprovider", "-p", "vf.pytest_contracts", "-n", str(jobs),
           os.path.join(REPO, test_file)]
    try:
        p = subprocess.run(cmd, cwd=REPO, env=env, capture_output=True,
                           text=True, timeout=timeout)
        rc = p.returncode
        tail = (p.stdout or "")[-400:]
    except subprocess.TimeoutExpired:
        rc, tail = -9, "timeout"
    evals, viols = {}, []
    try:
        with open(log) as f:
            for line in f:
                rec = json.loads(line)
                for k, v in rec["evals"].items():
                    evals[k] = evals.get(k, 0) + v
                viols += rec["violations"]
    finally:
        os.unlink(log)
    return {"rc": rc, "tail": tail, "evals": evals, "violations": viols}


def suite_case(case):
    """run_case implementation for {"kind": "suite", "file": ...}."""
    r = run_suite(case["file"], case.get("jobs", 4))
    viols = list(r["violations"])
    for v in viols:
        v.setdefault("detail", {})["seen_in"] = "repository test-suite"
    counters = {"suite_contract_evaluations": sum(r["evals"].values()),
                "suite_runs": 1}
    if r["rc"] not in (0,):
        counters["suite_nonzero_exit"] = 1
    return {"violations": viols, "evals": {}, "counters": counters,
            "nontrivial": False, "key": "suite " + case["file"],
            "sample": {"kind": "suite", "file": case["file"], "rc": r["rc"],
                       "contract_evaluations": r["evals"]}}
