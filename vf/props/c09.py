"""C09 - schedules conclude, repeat and report exhaustion exactly as
documented."""
from . import _stream as S
from ..common import PASSES, cfg_str

PROP = "C09"
LEVEL = "exploration"
BLOCK = 32   # neighbouring configurations share a worker process
RULE = ("all ten classes, grid + seeded random; multi-pass classes driven "
        "for 4 passes, single-pass classes probed with 3 further next() "
        "calls; is_exhausted / is_running read before the first next(), "
        "after every action and after every StopIteration; later passes "
        "compared by value with the first; non-trivial = n >= 2; distinct = "
        "distinct (class, parameters, passes)")
REQUIRED = ["C09.exhausted_after_final_action",
            "C09.not_exhausted_while_actions_remain",
            "C09.not_running_before_first_next",
            "C09.running_after_first_next", "C09.stop_iteration_after_end",
            "C09.repeat_equals_first_pass", "C09.pass_count"]
ASSUMPTIONS = ["'arbitrarily many' adjoint calculations is observed as 4",
               "executor semantics follow tests/test_validity.py"]


def cases(tier, seed):
    return S.make_cases(tier, seed, 4, "flags")


def make_context(tier, seed):
    return S.make_context(tier, seed, ["finalize"])


def run_case(case, ctx):
    res = S.run_stream_case(case, record=True)
    cfg = case["cfg"]
    extra = []
    ex = res.ex
    if ex is not None:
        pa = PASSES[cfg["cls"]]
        want = case["passes"] if pa is None else pa
        ex.ck("C09", "pass_count", res.completed and ex.passes == want,
              f"{cfg_str(cfg)}: {ex.passes} adjoint calculations completed, "
              f"{want} expected (completed={res.completed})")
        if res.completed and len(res.pass_slices) >= 2:
            acts = res.actions
            # first pass: everything after EndForward up to first EndReverse
            a0, b0 = res.pass_slices[0]
            ef = next((i for i in range(a0, b0)
                       if acts[i][0] == "EndForward"), None)
            if ef is None:      # C02's business; compare from the first
                ef = next((i for i in range(a0, b0)
                           if acts[i][0] != "Forward"), a0) - 1
            first = acts[ef + 1:b0]
            for k, (a, b) in enumerate(res.pass_slices[1:], start=2):
                ex.ck("C09", "repeat_equals_first_pass", acts[a:b] == first,
                      f"{cfg_str(cfg)}: adjoint calculation #{k} differs "
                      f"from the first: {acts[a:b][:4]} vs {first[:4]}")
        elif pa is None and res.completed is False:
            pass
        else:
            ex.evals["C09.repeat_equals_first_pass"] += 0
    out = S.result_of(res, case, cfg["n"] >= 2)
    # a later pass that is not executable is a C09 violation too
    for v in list(out["violations"]):
        if v["prop"] == "C01" and (v.get("pass") or 0) >= 1:
            w = dict(v)
            w["prop"] = "C09"
            w["rule"] = "repeat_executable"
            out["violations"].append(w)
    if cfg["n"] >= 2:
        out["sample"] = S.sample_of(res, case, 10)
    return out


close_context = S.close_context
