"""C19 - PeriodicDiskRevolve really is periodic, with a period independent
of n (offline cross-n checker + closed form + contract)."""
import random
import re

from . import _stream as S
from .. import contracts
from .. import oracles as O
from ..common import cfg_str, DISK
from ..workloads import (COST_VECTORS_QUICK, COST_VECTORS_THOROUGH,
                         random_costs)

PROP = "C19"
LEVEL = "exploration"
USES_ORACLES = True
RULE = ("each case is one (ram, cost vector): the period m is computed from "
        "the Aupy-Herrmann closed form in exact arithmetic and "
        "PeriodicDiskRevolve is run for EVERY n = 1 .. min(3m+8, cap); for "
        "each n the sweep's DISK writes must be exactly {k*m : (n-1) - k*m "
        "> m}, no DISK write may follow EndForward, every disk checkpoint "
        "is loaded exactly once, the forward-step total must equal q*m + "
        "GW(L_f, ram) + q*GW(m, ram), and the period the library prints "
        "must be m; non-trivial = some n in the case has >= 1 disk segment; "
        "distinct = distinct (ram, costs)")
REQUIRED = ["C19.sweep_disk_writes_periodic", "C19.no_disk_write_after_sweep",
            "C19.disk_checkpoint_read_once", "C19.forward_total_closed_form",
            "C19.printed_period_is_closed_form",
            "contract.mxrr_close_formula", "C19.streams_with_disk_segments"]
ASSUMPTIONS = ["'more than m steps remain' is read in the papers' indexing "
               "(l = n - 1 forward steps of the adjoint-computation graph)",
               "Griewank-Walther closed form for the memory-only segments"]


def cases(tier, seed):
    th = tier == "thorough"
    rng = random.Random(seed * 141650939 + 19)
    out = []
    vecs = (COST_VECTORS_THOROUGH + [[1, 1, 9, 9], [1, 2, 14, 14],
                                     [3, 1, 40, 2], [1, 1, 0.5, 0.25],
                                     [2, 1, 100, 100], [1, 1, 6, 0]]
            if th else COST_VECTORS_QUICK + [[1, 1, 9, 9], [5, 1, 1, 1],
                                             [1, 1, 30, 30], [1, 1, 3, 0],
                                             [0.5, 1, 3, 3]])
    for ram in range(1, (6 if th else 4) + 1):
        for v in vecs:
            out.append({"ram": ram, "costs": list(v),
                        "cap": 400 if th else 70})
    for _ in range(300 if th else 12):
        out.append({"ram": rng.randint(1, 6), "costs": random_costs(rng),
                    "cap": 260 if th else 60})
    return out


def make_context(tier, seed):
    return S.make_context(tier, seed, ["mxrr", "invariant"])


def run_case(case, ctx):
    ram, costs, cap = case["ram"], case["costs"], case["cap"]
    uf, ub, wd, rd = costs
    m = O.pdr_period(ram, uf, wd, rd)
    viols, evals, counters = [], {}, {}

    def ck(rule, cond, msg, **detail):
        evals["C19." + rule] = evals.get("C19." + rule, 0) + 1
        if not cond and len(viols) < 10:
            viols.append({"prop": "C19", "rule": rule, "msg": msg, "i": None,
                          "action": None, "detail": detail})

    nmax = min(3 * m + 8, cap)
    segs = 0
    # polluting preface: the same RAM count with other step costs (same
    # period, forward cost 4x smaller / larger; default costs) is planned
    # first in this process, so that anything the planners keep between
    # calls is stale for the sweep below
    pre_n = min(max(2 * m + 5, 30), 400)
    for v in ([uf / 4, ub, wd / 4, rd / 4], [uf * 4, ub, wd * 4, rd * 4],
              [1, 1, 2, 2], [uf, ub * 3, wd, rd]):
        for cls in ("PeriodicDiskRevolve", "Revolve", "DiskRevolve"):
            try:
                S.run_stream_case({"cfg": {"cls": cls, "n": pre_n,
                                           "ram": ram, "costs": v},
                                   "passes": 1, "observe": None})
                counters["preface_streams"] = \
                    counters.get("preface_streams", 0) + 1
            except Exception:
                pass
    ns = list(range(1, nmax + 1))
    if 3 * m + 8 > cap and m + 2 <= 4000:
        # also a few n beyond the cap so that at least one period is seen
        ns += [m + 2, 2 * m + 2, 2 * m + 5]
    for n in ns:
        cfg = {"cls": "PeriodicDiskRevolve", "n": n, "ram": ram,
               "costs": costs}
        res = S.run_stream_case(S.decorate(
            {"cfg": cfg, "passes": 1, "observe": None, "rseed": n}, n, 0,
            frac=6))
        r = S.result_of(res, {"cfg": cfg, "passes": 1}, False)
        viols.extend(r["violations"])
        for k, v in r["evals"].items():
            evals[k] = evals.get(k, 0) + v
        ex = res.ex
        if ex is None or not res.completed:
            continue
        exp_w = O.pdr_disk_write_steps(n, m)
        ck("sweep_disk_writes_periodic", ex.disk_writes_sweep == exp_w,
           f"{cfg_str(cfg)}: sweep wrote DISK checkpoints at "
           f"{ex.disk_writes_sweep[:8]}, period m={m} demands {exp_w[:8]}",
           m=m)
        ck("no_disk_write_after_sweep", not ex.disk_writes_after,
           f"{cfg_str(cfg)}: DISK written after EndForward at steps "
           f"{ex.disk_writes_after[:6]}")
        loads = {k: v for k, v in ex.load_count.items() if k[0] == "DISK"}
        once = (len(loads) == ex.writes[DISK]
                and all(v == 1 for v in loads.values()))
        ck("disk_checkpoint_read_once", once,
           f"{cfg_str(cfg)}: DISK checkpoints written {ex.writes[DISK]}, "
           f"load counts {sorted(loads.items())[:6]}")
        exp_f = O.pdr_forward_total(n, ram, m)
        ck("forward_total_closed_form", ex.fwd_steps == exp_f,
           f"{cfg_str(cfg)}: {ex.fwd_steps} forward steps, periodic closed "
           f"form with m={m} gives {exp_f}", m=m)
        mm = re.search(r"periods of size\s+(\d+)", res.stdout or "")
        if mm:
            ck("printed_period_is_closed_form", int(mm.group(1)) == m,
               f"{cfg_str(cfg)}: library reports period {mm.group(1)}, "
               f"closed form {m}")
        if exp_w:
            segs += 1
    counters["C19.streams_with_disk_segments"] = segs
    counters["streams"] = len(ns)
    viols += contracts.drain()
    out = {"violations": viols, "evals": evals, "counters": counters,
           "nontrivial": segs > 0, "key": f"ram={ram},costs={costs}"}
    if segs:
        out["sample"] = {"ram": ram, "costs": costs, "period": m,
                         "n_range": [1, nmax],
                         "streams_with_disk_segments": segs}
    return out


close_context = S.close_context
