"""C01 - every emitted schedule is executable (reference executor)."""
from . import _stream as S

PROP = "C01"
LEVEL = "exploration"
BLOCK = 32   # neighbouring configurations share a worker process
RULE = ("grid (complete for its box) + seeded random configurations of all "
        "ten classes incl. cost vectors and every finalisation point n, all "
        "permitted adjoint passes (multi-pass classes driven for 3/4 passes);"
        " non-trivial = the stream wrote >= 1 checkpoint and loaded >= 1; "
        "distinct = distinct (class, parameters, passes)")
REQUIRED = ["C01.forward_start", "C01.checkpoint_exists",
            "C01.restart_covers_recompute", "C01.reverse_has_deps",
            "C01.no_overwrite", "C01.checkpoint_before_adjoint"]
ASSUMPTIONS = ["executor semantics follow tests/test_validity.py: a Forward "
               "replaces WORK; data written to RAM/DISK is not also in WORK",
               "interpreter /venv/bin/python, library imported from /repo"]


def cases(tier, seed):
    return S.make_cases(tier, seed, 4 if tier == "thorough" else 3, None)


def make_context(tier, seed):
    return S.make_context(tier, seed, ["n_advance", "mixed", "hopt", "mxrr", "finalize"])


def run_case(case, ctx):
    res = S.run_stream_case(case, record=True)
    ex = res.ex
    nontriv = ex is not None and sum(ex.writes.values()) >= 1 and \
        sum(ex.loads.values()) >= 1
    out = S.result_of(res, case, nontriv)
    if nontriv:
        out["sample"] = S.sample_of(res, case)
    return out


close_context = S.close_context
