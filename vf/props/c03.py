"""C03 - declared RAM / DISK checkpoint budgets are never exceeded; a checkpoint holds restart data or one step of dependencies, never both."""
from . import _stream as S

PROP = "C03"
LEVEL = "exploration"
BLOCK = 32   # neighbouring configurations share a worker process
RULE = ("all ten classes, grid + seeded random with emphasis on cost vectors that make HRevolve really use DISK; occupancy compared with the class budget after every action; non-trivial = peak occupancy of RAM or DISK >= 1; distinct = distinct (class, parameters, passes)")
REQUIRED = ["C03.ram_budget", "C03.disk_budget", "C03.kind_exclusive", "C03.deps_one_step"]
ASSUMPTIONS = ["executor semantics follow tests/test_validity.py",
               "library imported from /repo working tree"]


def cases(tier, seed):
    return S.make_cases(tier, seed, 4 if tier == "thorough" else 3, None)


def make_context(tier, seed):
    return S.make_context(tier, seed, ["finalize", "n_advance"])


def nontrivial(res, case):
    ex = res.ex
    if ex is None:
        return False
    return max(ex.peak.values()) >= 1


def run_case(case, ctx):
    res = S.run_stream_case(case, record=True)
    nt = nontrivial(res, case)
    out = S.result_of(res, case, nt)
    if nt:
        out["sample"] = S.sample_of(res, case)
    return out


close_context = S.close_context
