"""Shared implementation of the stream-monitor checks (C01-C04, C08, C09,
C11, C12, C18 emitted half): real schedule objects are driven through the
reference executor with the contracts attached."""
import json
import random

from .. import contracts
from ..common import cfg_str, PASSES
from ..drivers import run_stream
from ..workloads import stream_cfgs


def make_cases(tier, seed, passes_multi, observe, classes=None, scale=1.0,
               extra=None):
    cfgs = stream_cfgs(tier, seed, classes=classes, scale=scale)
    if extra:
        cfgs = cfgs + extra
    out = []
    for i, cfg in enumerate(cfgs):
        k = passes_multi if PASSES[cfg["cls"]] is None else 1
        if cfg["cls"] in ("SingleMemory", "SingleDiskCopy") and cfg["n"] > 3000:
            k = min(k, 2)
        out.append({"cfg": cfg, "passes": k, "observe": observe,
                    "rseed": (seed * 7919 + i) % (2 ** 31)})
    return out


def make_context(tier, seed, which=None):
    contracts.install(which)
    return {"tier": tier, "seed": seed}


def run_stream_case(case, record=False):
    cfg = case["cfg"]
    res = run_stream(cfg, passes=case.get("passes", 1),
                     observe=case.get("observe"),
                     rng=random.Random(case.get("rseed", 0)), record=record)
    return res


def result_of(res, case, nontrivial, extra_violations=()):
    cfg = case["cfg"]
    viols = []
    evals = {}
    counters = {}
    if res.construct_error is not None:
        viols.append({"prop": "C17", "rule": "valid_tuple_constructs",
                      "msg": f"{cfg_str(cfg)} raised "
                             f"{res.construct_error!r} at construction",
                      "i": None, "action": None,
                      "detail": {"exc": type(res.construct_error).__name__}})
        viols.append({"prop": "C01", "rule": "library_guard",
                      "msg": f"{cfg_str(cfg)} raised "
                             f"{res.construct_error!r} at construction",
                      "i": None, "action": None,
                      "detail": {"exc": type(res.construct_error).__name__,
                                 "at": "construction"}})
        counters["construct_errors"] = 1
    else:
        viols += res.violations
        evals = dict(res.ex.evals)
        counters["actions"] = res.ex.n_actions
        counters["streams_completed"] = 1 if res.completed else 0
        counters["passes_completed"] = res.ex.passes
        for k, v in res.ex.kinds.items():
            counters["actions." + k] = v
    viols += contracts.drain()
    viols += list(extra_violations)
    out = {"violations": viols, "evals": evals, "counters": counters,
           "nontrivial": bool(nontrivial), "key": cfg_str(cfg) +
           f"|p={case.get('passes')}"}
    return out


def sample_of(res, case, k=14):
    if res.actions is None:
        return {"cfg": case["cfg"], "passes": case.get("passes"),
                "summary": res.ex.summary() if res.ex else None}
    return {"cfg": case["cfg"], "passes": case.get("passes"),
            "first_actions": [list(a) for a in res.actions[:k]],
            "n_actions": len(res.actions),
            "summary": res.ex.summary() if res.ex else None}


def close_context(ctx):
    viols = contracts.drain()
    return {"contracts": contracts.snapshot_evals(), "violations": viols}
