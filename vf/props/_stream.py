"""Shared implementation of the stream-monitor checks (C01-C04, C08, C09,
C11, C12, C18 emitted half): real schedule objects are driven through the
reference executor with the contracts attached."""
import json
import random

from .. import contracts
from ..common import cfg_str, PASSES
from ..drivers import run_stream
from ..workloads import stream_cfgs


def make_cases(tier, seed, passes_multi, observe, classes=None, scale=1.0,
               extra=None):
    cfgs = stream_cfgs(tier, seed, classes=classes, scale=scale)
    if extra:
        cfgs = cfgs + extra
    out = []
    for i, cfg in enumerate(cfgs):
        k = passes_multi if PASSES[cfg["cls"]] is None else 1
        if cfg["cls"] in ("SingleMemory", "SingleDiskCopy") and cfg["n"] > 3000:
            k = min(k, 2)
        case = {"cfg": cfg, "passes": k, "observe": observe,
                "rseed": (seed * 7919 + i) % (2 ** 31),
                # consume the schedule with next() or with the documented
                # for-loop / break idiom (a new loop per adjoint pass)
                "protocol": "for" if (i + seed) % 3 == 1 else "next"}
        # every fourth case repeats finalize(n) whenever schedule.n == n
        if (i + seed) % 4 == 1:
            case["refinalize"] = True
        # every sixth case interleaves finalize calls that must be rejected
        if (i + seed) % 6 == 2:
            case["probe"] = True
        # online schedules: every fifth case finalises late (one or two
        # further next() calls after the forward reached its end)
        if cfg["cls"] in ("TwoLevel", "SingleDiskCopy", "SingleDiskMove",
                          "SingleMemory", "None") and (i + seed) % 5 == 3:
            case["late"] = 1 + (i // 5) % 2
        # a quarter of the cases run while a sibling schedule (same class,
        # one parameter changed or none) is paused half-way and kept alive
        if (i * 7 + seed) % 4 == 2 and cfg["cls"] not in ("SingleMemory",
                                                          "None"):
            from ..workloads import single_param_neighbours
            nb = single_param_neighbours(cfg) + [dict(cfg)]
            case["sibling"] = nb[(i // 4) % len(nb)]
        out.append(case)
    return out


def decorate(case, i, seed=0, frac=4):
    """Give a {"cfg": ...} case a consumption protocol and, for every
    frac-th case, a paused sibling schedule (see make_cases)."""
    cfg = case["cfg"]
    case.setdefault("protocol", "for" if (i + seed) % 3 == 1 else "next")
    if (i + seed) % 4 == 1:
        case.setdefault("refinalize", True)
    if (i + seed) % 6 == 2:
        case.setdefault("probe", True)
    if cfg["cls"] in ("TwoLevel", "SingleDiskCopy", "SingleDiskMove",
                      "SingleMemory", "None") and (i + seed) % 5 == 3:
        case.setdefault("late", 1 + (i // 5) % 2)
    if (i * 7 + seed) % frac == 2 and cfg["cls"] not in ("SingleMemory",
                                                        "None"):
        from ..workloads import single_param_neighbours
        nb = single_param_neighbours(cfg) + [dict(cfg)]
        case.setdefault("sibling", nb[(i // frac) % len(nb)])
    return case


def make_context(tier, seed, which=None):
    contracts.install(which)
    return {"tier": tier, "seed": seed}


def run_stream_case(case, record=False):
    cfg = case["cfg"]
    holder = {"sib": None}

    def make_sibling():
        # paused sibling: advanced past EndForward (it then holds its
        # checkpoints), resumed and finished after the observed stream
        from ..drivers import Stepper
        from ..common import EndForward
        try:
            sib = Stepper(case["sibling"], passes=1)
            for _ in range(400):
                a = sib.step()
                if a is None or isinstance(a, EndForward):
                    break
            for _ in range(case.get("rseed", 0) % 5):
                sib.step()
            holder["sib"] = sib
        except Exception:
            holder["sib"] = None

    after = None
    if case.get("sibling"):
        # half of the siblings are constructed before the observed schedule,
        # half after its construction and before its first action
        if case.get("rseed", 0) % 2:
            after = make_sibling
        else:
            make_sibling()
    res = run_stream(cfg, passes=case.get("passes", 1), after_build=after,
                     observe=case.get("observe"),
                     rng=random.Random(case.get("rseed", 0)), record=record,
                     protocol=case.get("protocol", "next"),
                     late=case.get("late", 0),
                     refinalize=case.get("refinalize", False),
                     probe=case.get("probe", False))
    sib = holder["sib"]
    if sib is not None:
        try:
            sib.run()
        except Exception:
            pass
    return res


def result_of(res, case, nontrivial, extra_violations=()):
    cfg = case["cfg"]
    viols = []
    evals = {}
    counters = {}
    if res.construct_error is not None:
        viols.append({"prop": "C17", "rule": "valid_tuple_constructs",
                      "msg": f"{cfg_str(cfg)} raised "
                             f"{res.construct_error!r} at construction",
                      "i": None, "action": None,
                      "detail": {"exc": type(res.construct_error).__name__}})
        viols.append({"prop": "C01", "rule": "library_guard",
                      "msg": f"{cfg_str(cfg)} raised "
                             f"{res.construct_error!r} at construction",
                      "i": None, "action": None,
                      "detail": {"exc": type(res.construct_error).__name__,
                                 "at": "construction"}})
        counters["construct_errors"] = 1
    else:
        viols += res.violations
        evals = dict(res.ex.evals)
        counters["actions"] = res.ex.n_actions
        counters["streams_completed"] = 1 if res.completed else 0
        counters["passes_completed"] = res.ex.passes
        for k, v in res.ex.kinds.items():
            counters["actions." + k] = v
    # which driver modes this case exercised (evidence of what was observed)
    for mode in ("sibling", "late", "refinalize", "probe"):
        if case.get(mode):
            counters["driver_mode." + mode] = 1
    counters["driver_mode.protocol_" + case.get("protocol", "next")] = 1
    viols += contracts.drain()
    viols += list(extra_violations)
    out = {"violations": viols, "evals": evals, "counters": counters,
           "nontrivial": bool(nontrivial), "key": cfg_str(cfg) +
           f"|p={case.get('passes')}"}
    return out


def sample_of(res, case, k=14):
    if res.actions is None:
        return {"cfg": case["cfg"], "passes": case.get("passes"),
                "summary": res.ex.summary() if res.ex else None}
    return {"cfg": case["cfg"], "passes": case.get("passes"),
            "first_actions": [list(a) for a in res.actions[:k]],
            "n_actions": len(res.actions),
            "summary": res.ex.summary() if res.ex else None}


def close_context(ctx):
    viols = contracts.drain()
    return {"contracts": contracts.snapshot_evals(), "violations": viols}
