"""C05 - binomial schedules perform the minimal possible number of forward
steps (Griewank-Walther)."""
import random

from . import _stream as S
from .. import oracles as O
from ..common import cfg_str
from ..workloads import (COST_VECTORS_QUICK, COST_VECTORS_THOROUGH,
                         random_costs)

PROP = "C05"
LEVEL = "exploration"
USES_ORACLES = True
RULE = ("Multistage: every (n, s) of the grid with EVERY split ram+disk=s, "
        "both trajectories, over-provisioned splits, seeded random large n; "
        "Revolve: grid x cost vectors; helper optimal_steps_binomial(n, s) "
        "for s in 1..n+2; stream forward-step total compared with "
        "n + t*n - C(s+t, s+1); non-trivial = the optimum needs extra steps "
        "(n >= 3 and s < n-1); distinct = distinct (class, parameters)")
REQUIRED = ["C05.forward_total_is_gw_optimum", "C05.helper_is_gw_optimum",
            "contract.n_advance", "contract.optimal_extra_steps"]
ASSUMPTIONS = ["the Griewank-Walther closed form is the optimum over all "
               "executable schedules; agreement with exhaustive search is "
               "established on the oracle_validation box only"]


def cases(tier, seed):
    th = tier == "thorough"
    rng = random.Random(seed * 104729 + 5)
    cfgs = []
    nmax, smax = (64, 9) if th else (32, 7)
    for n in range(1, nmax + 1):
        for s in range(1, smax + 1):
            for ram in range(0, s + 1):
                for tr in ("maximum", "revolve"):
                    cfgs.append({"cls": "Multistage", "n": n, "ram": ram,
                                 "disk": s - ram, "traj": tr})
        if n == 1:
            cfgs.append({"cls": "Multistage", "n": 1, "ram": 0, "disk": 0,
                         "traj": "maximum"})
    # over-provisioned
    for n in range(2, 12 if not th else 20):
        for ram, disk in ((n, n), (n - 1, 1), (1, n - 1), (n + 3, 0),
                          (0, n + 3), (n - 1, n - 1)):
            cfgs.append({"cls": "Multistage", "n": n, "ram": ram,
                         "disk": disk, "traj": rng.choice(["maximum",
                                                           "revolve"])})
    vecs = COST_VECTORS_THOROUGH if th else COST_VECTORS_QUICK
    for n in range(1, (48 if th else 22) + 1):
        for s in range(1, (6 if th else 4) + 1):
            for v in vecs:
                cfgs.append({"cls": "Revolve", "n": n, "ram": s,
                             "costs": list(v)})
    k = 2500 if th else 70
    for _ in range(k):
        n = int(2 + rng.random() ** 2 * ((10000 if th else 500) - 2))
        s = rng.choice([1, 2, 3, 4, 5, 7, 10, 20, 40, rng.randint(1, 60)])
        ram = rng.randint(0, s)
        cfgs.append({"cls": "Multistage", "n": n, "ram": ram, "disk": s - ram,
                     "traj": rng.choice(["maximum", "revolve"])})
    for _ in range(k // 2):
        n = int(1 + rng.random() ** 1.5 * ((400 if th else 120) - 1))
        cfgs.append({"cls": "Revolve", "n": n, "ram": rng.randint(1, 9),
                     "costs": random_costs(rng)})
    out = [S.decorate({"cfg": c, "passes": 1, "observe": None, "rseed": i},
                      i, seed)
           for i, c in enumerate(cfgs)]
    for n in range(1, (160 if th else 70) + 1):
        out.append({"kind": "helper", "n": n})
    # direct calls of the step-size function under its local-optimality
    # contract, far beyond what the schedules of this run request
    for n in range(2, (900 if th else 260)):
        out.append({"kind": "n_advance", "n": n,
                    "smax": 40 if th else 16})
    rng.shuffle(out)
    if th:
        out.insert(0, {"kind": "suite", "file": "tests/test_multistage.py"})
    return out


def make_context(tier, seed):
    return S.make_context(tier, seed, ["n_advance", "optimal", "invariant"])


def run_n_advance(case):
    from checkpoint_schedules import multistage
    from .. import contracts
    n = case["n"]
    calls = 0
    viols = []
    for s in range(1, case["smax"] + 1):
        for tr in ("maximum", "revolve"):
            try:
                multistage.n_advance(n, s, trajectory=tr)
                calls += 1
            except Exception as e:
                viols.append({"prop": "C05", "rule": "n_advance_raises",
                              "msg": f"n_advance({n},{s},{tr}) raised {e!r}",
                              "i": None, "action": None, "detail": {}})
    viols += contracts.drain()
    return {"violations": viols, "evals": {},
            "counters": {"n_advance_direct_calls": calls},
            "nontrivial": False, "key": f"n_advance n={n}"}


def run_case(case, ctx):
    if case.get("kind") == "helper":
        return run_helper(case)
    if case.get("kind") == "n_advance":
        return run_n_advance(case)
    if case.get("kind") == "suite":
        from ..suite import suite_case
        return suite_case(case)
    res = S.run_stream_case(case)
    cfg = case["cfg"]
    ex = res.ex
    n = cfg["n"]
    nt = False
    if ex is not None:
        s = cfg["ram"] + cfg.get("disk", 0)
        se = min(s, n - 1)
        exp = O.gw_total(n, se) if n > 1 else 1
        nt = n >= 3 and se < n - 1
        if res.completed:
            ex.ck("C05", "forward_total_is_gw_optimum", ex.fwd_steps == exp,
                  f"{cfg_str(cfg)}: {ex.fwd_steps} forward steps, "
                  f"Griewank-Walther optimum is {exp}", None,
                  got=ex.fwd_steps, optimum=exp)
    out = S.result_of(res, case, nt)
    if nt and ex is not None:
        out["sample"] = {"cfg": cfg, "forward_steps": ex.fwd_steps,
                         "gw_optimum": O.gw_total(n, min(
                             cfg["ram"] + cfg.get("disk", 0), n - 1))}
    return out


def run_helper(case):
    from checkpoint_schedules.multistage import optimal_steps_binomial
    from .. import contracts
    n = case["n"]
    viols = []
    evals = 0
    for s in range(1, n + 3):
        if n > 1 or s >= 0:
            try:
                got = optimal_steps_binomial(n, s)
            except Exception as e:
                got = repr(e)
            exp = O.gw_total(n, min(s, n - 1)) if n > 1 else 1
            evals += 1
            if got != exp:
                viols.append({"prop": "C05", "rule": "helper_is_gw_optimum",
                              "msg": f"optimal_steps_binomial({n},{s}) = "
                                     f"{got}, Griewank-Walther {exp}",
                              "i": None, "action": None, "detail": {}})
    viols += contracts.drain()
    return {"violations": viols,
            "evals": {"C05.helper_is_gw_optimum": evals},
            "nontrivial": n >= 3, "key": f"helper n={n}",
            "counters": {"helper_calls": evals}}


close_context = S.close_context
