"""C13 - TwoLevel: periodic disk checkpoints, binomially optimal
recomputation of every period block in every pass."""
import random

from . import _stream as S
from .. import oracles as O
from ..common import cfg_str
from ..workloads import grid_twolevel, rand_twolevel

PROP = "C13"
LEVEL = "exploration"
BLOCK = 32   # neighbouring configurations share a worker process
USES_ORACLES = True
RULE = ("TwoLevelCheckpointSchedule for a grid of (n, period, "
        "binomial_snapshots, storage, trajectory) incl. every n (partial "
        "last block) plus seeded random large n / periods up to 97, 2-3 "
        "passes; pre-finalisation actions compared literally; per pass and "
        "period block the forward steps are summed from the recorded stream "
        "and compared with L + GW_extra(L, binomial_snapshots+1); "
        "non-trivial = some block has L >= 3 and needs extra steps; "
        "distinct = distinct parameters")
REQUIRED = ["C13.sweep_is_periodic_disk_write", "C13.block_forward_optimum",
            "C13.extra_checkpoints_in_binomial_storage",
            "C13.forward_within_one_block", "contract.n_advance"]
ASSUMPTIONS = ["Griewank-Walther closed form (validated by search on the "
               "oracle_validation box)"]


def cases(tier, seed):
    th = tier == "thorough"
    rng = random.Random(seed * 49979687 + 13)
    cfgs = grid_twolevel(48, 10, 5) if th else grid_twolevel(22, 6, 3)
    cfgs += rand_twolevel(rng, 2000 if th else 60, 5000 if th else 500)
    # long period blocks with several binomial units (deep checkpoint nesting)
    for p in (18, 24, 35, 48) + ((64, 97, 130) if th else ()):
        for bs in (3, 4, 6):
            for tr in ("maximum", "revolve"):
                cfgs.append({"cls": "TwoLevel", "n": 2 * p + (p // 3) + bs,
                             "period": p, "bs": bs,
                             "storage": "RAM" if (p + bs) % 2 else "DISK",
                             "traj": tr})
    return [S.decorate({"cfg": c, "passes": 3 if th else 2, "observe": None,
                        "rseed": i}, i, seed)
            for i, c in enumerate(cfgs)]


def make_context(tier, seed):
    return S.make_context(tier, seed, ["n_advance", "invariant", "finalize"])


def run_case(case, ctx):
    cfg = case["cfg"]
    res = S.run_stream_case(case, record=True)
    ex = res.ex
    n, p, bs, st = cfg["n"], cfg["period"], cfg["bs"], cfg["storage"]
    nt = False
    if ex is not None and res.actions:
        acts = res.actions
        phase = "sweep"
        k = 0
        blocks = {}
        passno = 0
        for i, a in enumerate(acts):
            if a[0] == "EndForward":
                phase = "reverse"
                continue
            if a[0] == "EndReverse":
                # evaluate blocks of this pass
                nblocks = (n + p - 1) // p
                for b in range(nblocks):
                    L = min((b + 1) * p, n) - b * p
                    exp = O.gw_total(L, min(bs + 1, L - 1)) if L > 1 else 1
                    got = blocks.get(b, 0)
                    ex.ck("C13", "block_forward_optimum", got == exp,
                          f"{cfg_str(cfg)} pass {passno + 1}: block {b} "
                          f"(length {L}) recomputed with {got} forward "
                          f"steps, binomial optimum for {bs + 1} units is "
                          f"{exp}", None, L=L, got=got, optimum=exp)
                    if L >= 3 and exp > L:
                        nt = True
                blocks = {}
                passno += 1
                continue
            if phase == "sweep":
                want = ("Forward", k * p, (k + 1) * p, True, False, "DISK")
                ex.ck("C13", "sweep_is_periodic_disk_write", a == want,
                      f"{cfg_str(cfg)}: pre-finalisation action #{i} is {a}, "
                      f"expected {want}")
                k += 1
                continue
            if a[0] == "Forward":
                _, n0, n1, wi, wa, stn = a
                b = n0 // p
                ex.ck("C13", "forward_within_one_block",
                      (n1 - 1) // p == b,
                      f"{cfg_str(cfg)}: {a} crosses a period boundary")
                blocks[b] = blocks.get(b, 0) + (n1 - n0)
                if stn in ("RAM", "DISK"):
                    ex.ck("C13", "extra_checkpoints_in_binomial_storage",
                          stn == st and wi and not wa,
                          f"{cfg_str(cfg)}: reverse-phase checkpoint {a} not "
                          f"a restart checkpoint in the binomial storage "
                          f"{st}")
            elif a[0] in ("Copy", "Move"):
                _, step, src, dst = a
                if step % p != 0:
                    ex.ck("C13", "extra_checkpoints_in_binomial_storage",
                          src == st,
                          f"{cfg_str(cfg)}: {a} loads a non-period step "
                          f"from {src}, binomial storage is {st}")
                else:
                    ex.ck("C13", "period_checkpoint_from_disk",
                          src == "DISK",
                          f"{cfg_str(cfg)}: period checkpoint loaded by "
                          f"{a}, expected from DISK")
    if ex is not None:
        ex.ck("C13", "stream_completes", res.completed,
              f"{cfg_str(cfg)} (late={case.get('late', 0)}, protocol="
              f"{case.get('protocol')}): the stream did not run to the end "
              f"of {case.get('passes')} adjoint passes: {res.error!r}")
    out = S.result_of(res, case, nt)
    if nt:
        out["sample"] = S.sample_of(res, case, 12)
    return out


close_context = S.close_context
