"""C02 - phase structure: each adjoint calculation reverses every step exactly once, in order."""
from . import _stream as S

PROP = "C02"
LEVEL = "exploration"
BLOCK = 32   # neighbouring configurations share a worker process
RULE = ("all ten classes, grid + seeded random, every finalisation point, all permitted passes; the executor phase automaton checks sweep contiguity, single EndForward, Reverse from the adjoint position, EndReverse exactly at r == n, StopIteration x3 after the last permitted EndReverse; non-trivial = n >= 3; distinct = distinct (class, parameters, passes)")
REQUIRED = ["C02.sweep_contiguous", "C02.end_forward_once", "C02.end_forward_at_n", "C02.reverse_from_adjoint_position", "C02.end_reverse_when_all_reversed", "C02.only_forward_before_end_forward", "C02.stop_iteration_after_end", "C02.no_work_after_last_reverse"]
ASSUMPTIONS = ["executor semantics follow tests/test_validity.py",
               "library imported from /repo working tree"]


def cases(tier, seed):
    return S.make_cases(tier, seed, 4 if tier == "thorough" else 3, None)


def make_context(tier, seed):
    return S.make_context(tier, seed, ["finalize", "n_advance"])


def nontrivial(res, case):
    ex = res.ex
    if ex is None:
        return False
    return case["cfg"]["n"] >= 3


def run_case(case, ctx):
    res = S.run_stream_case(case, record=True)
    nt = nontrivial(res, case)
    out = S.result_of(res, case, nt)
    if nt:
        out["sample"] = S.sample_of(res, case)
    return out


close_context = S.close_context
