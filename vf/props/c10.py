"""C10 - finalize() accepts exactly the true end of the forward and nothing
else (history checker with a twin object + sequential model)."""
import itertools
import random
import sys

from . import _stream as S
from .. import contracts
from .. import oracles as O
from ..common import (build_captured, cfg_str, act_tuple, ONLINE, Forward,
                      EndForward, EndReverse)
from ..executor import Executor

PROP = "C10"
LEVEL = "exploration"
RULE = ("histories over the alphabet {next, finalize(k)} with hostile k "
        "(-1, 0, 1, told-1, told, told+1, max_n, max_n+1, sys.maxsize, "
        "small random) for all ten classes; every history is run on the "
        "subject and on a twin object that only receives the accepted "
        "finalize calls; outcome / state / next action compared with a "
        "sequential model; exhaustive over the alphabet up to the stated "
        "length for the online classes plus seeded longer histories; "
        "non-trivial = the history contains >= 1 finalize call after >= 1 "
        "next(); distinct = distinct (class, parameters, history)")
REQUIRED = ["C10.outcome_matches_model", "C10.accept_sets_state",
            "C10.reject_leaves_state", "C10.next_after_accept_is_end_forward",
            "C10.stream_unchanged_by_rejected_calls", "contract.finalize",
            "C10.remaining_stream_executable", "C10.accepted",
            "C10.rejected_value", "C10.rejected_runtime", "C10.noop"]
ASSUMPTIONS = ["k ranges over Python ints only",
               "'told' = n1 of the last Forward emitted before finalisation"]
EXHAUSTIVE = {"quick": False, "thorough": False}

SYMS = ["neg", "zero", "one", "told-1", "told", "told+1", "maxn", "maxn+1",
        "big", "two", "three"]


def configs(th):
    out = [{"cls": c, "n": 0} for c in ("SingleMemory", "SingleDiskCopy",
                                        "SingleDiskMove", "None")]
    for p in (1, 2, 3) + ((5,) if th else ()):
        for bs in (0, 1, 2):
            for st in ("RAM", "DISK"):
                out.append({"cls": "TwoLevel", "n": 0, "period": p, "bs": bs,
                            "storage": st, "traj": "maximum"})
    for n in (1, 2, 3, 5) + ((8,) if th else ()):
        out.append({"cls": "Multistage", "n": n, "ram": 1, "disk": 1,
                    "traj": "revolve"})
        out.append({"cls": "Mixed", "n": n, "s": 2, "storage": "RAM"})
        out.append({"cls": "Revolve", "n": n, "ram": 2})
        out.append({"cls": "DiskRevolve", "n": n, "ram": 1})
        out.append({"cls": "PeriodicDiskRevolve", "n": n, "ram": 1})
        out.append({"cls": "HRevolve", "n": n, "ram": 1, "disk": 1})
    return out


def cases(tier, seed):
    th = tier == "thorough"
    rng = random.Random(seed * 32452843 + 10)
    out = []
    L = 5 if th else 4
    alpha = ["next"] + ["fin:" + s for s in SYMS[:9]]
    for cfg in configs(th):
        online = cfg["cls"] in ONLINE
        if online:
            # exhaustive: all histories of length L, split by first 2 ops
            for a in alpha:
                for b in alpha:
                    out.append({"cfg": cfg, "prefix": [a, b],
                                "enumerate": L - 2})
        else:
            for a in alpha:
                out.append({"cfg": cfg, "prefix": [a],
                            "enumerate": (L - 2)})
    # structured histories: a forward sweep of a steps, an accepted
    # finalize, b further actions (through EndForward, into and beyond the
    # adjoint passes), then one more finalize call
    for cfg in configs(th):
        if cfg["cls"] not in ONLINE:
            continue
        for a in (1, 2, 3):
            for b in range(0, 16 if th else 13):
                for sym in ("maxn", "maxn+1", "told-1", "one"):
                    out.append({"cfg": cfg, "history":
                                ["next"] * a + ["fin:told"] + ["next"] * b
                                + ["fin:" + sym, "next", "next"]})
    # seeded longer histories
    cfgs = configs(th)
    for i in range(6000 if th else 700):
        cfg = rng.choice(cfgs)
        ln = rng.randint(3, 14 if th else 12)
        hist = []
        for _ in range(ln):
            if rng.random() < 0.6:
                hist.append("next")
            else:
                sym = rng.choice(SYMS)
                if rng.random() < 0.15:
                    sym = "k%d" % rng.randint(-3, 12)
                hist.append("fin:" + sym)
        out.append({"cfg": cfg, "history": hist})
    rng.shuffle(out)
    if th:
        out.insert(0, {"kind": "suite", "file": "tests/test_validity.py"})
    return out


def make_context(tier, seed):
    return S.make_context(tier, seed, ["finalize", "invariant", "n_advance",
                                       "mixed"])


def resolve(sym, told, known):
    if sym.startswith("k"):
        return int(sym[1:])
    mx = known if known is not None else told
    return {"neg": -1, "zero": 0, "one": 1, "two": 2, "three": 3,
            "told-1": told - 1, "told": told, "told+1": told + 1,
            "maxn": mx, "maxn+1": mx + 1, "big": sys.maxsize}[sym]


def _next(s):
    try:
        a = next(s)
        return ("act", act_tuple(a)), a
    except StopIteration:
        return ("stop",), None
    except Exception as e:
        return ("exc", type(e).__name__), None


class Hist:
    def __init__(self):
        self.viols = []
        self.evals = {}

    def ck(self, rule, cond, msg, **detail):
        k = "C10." + rule
        self.evals[k] = self.evals.get(k, 0) + 1
        if not cond:
            if len(self.viols) < 6:
                self.viols.append({"prop": "C10", "rule": rule, "msg": msg,
                                   "i": None, "action": None,
                                   "detail": detail})

    def count(self, name):
        k = "C10." + name
        self.evals[k] = self.evals.get(k, 0) + 1


def run_history(cfg, ops, H):
    online = cfg["cls"] in ONLINE
    s, _ = build_captured(cfg)
    t, _ = build_captured(cfg)
    told = 0
    known = None if online else cfg["n"]
    emitted = []              # actions of the subject
    expect_ef = False
    accepted_k = None
    fin_after_last_forward = False
    last_forward = None
    label = f"{cfg_str(cfg)} history={ops}"
    n_next = 0
    nontrivial = False
    # shadow of where the forward state stands, from the emitted actions
    # only: Forward -> n1; loading a restart checkpoint -> its step; loading
    # a dependency checkpoint -> undefined (None)
    shadow = 0
    kinds = {}
    for idx, op in enumerate(ops):
        if op == "next":
            (ra, a) = _next(s)
            (rb, b) = _next(t)
            n_next += 1
            H.ck("stream_unchanged_by_rejected_calls", ra == rb,
                 f"{label}: op#{idx} next() gave {ra} but the twin (which "
                 f"only saw the accepted finalize calls) gave {rb}")
            if expect_ef:
                H.ck("next_after_accept_is_end_forward",
                     ra == ("act", ("EndForward",)),
                     f"{label}: action after the accepted finalize is {ra}, "
                     "expected EndForward")
                expect_ef = False
            if a is not None:
                emitted.append(a)
                t_ = act_tuple(a)
                if t_[0] == "Forward":
                    shadow = t_[2] if known is None else min(t_[2], known) \
                        if isinstance(t_[2], int) else t_[2]
                    if t_[5] in ("RAM", "DISK"):
                        kinds[(t_[5], t_[1])] = "ics" if t_[3] else "deps"
                elif t_[0] in ("Copy", "Move") and t_[3] == "WORK":
                    shadow = t_[1] if kinds.get((t_[2], t_[1])) == "ics" \
                        else None
                if isinstance(a, Forward) and known is None:
                    told = a.n1
                    last_forward = a
                    fin_after_last_forward = False
            continue
        k = resolve(op[4:], told, known)
        if n_next > 0:
            nontrivial = True
        try:
            before = (s.n, s.r, s.max_n)
        except Exception as e:
            H.ck("outcome_matches_model", False,
                 f"{label}: reading n/r/max_n raised {e!r}")
            return nontrivial
        # "the forward stands at max_n" is judged from the action stream
        # (shadow), not from the schedule's own report
        cur = before[0] if known is None else shadow
        exp = O.finalize_model(known, told, cur, k)
        try:
            s.finalize(k)
            got = "ok"
        except (ValueError, RuntimeError) as e:
            got = type(e).__name__
        except Exception as e:
            got = "other:" + type(e).__name__
        want = "ok" if exp in ("accept", "noop") else exp
        H.ck("outcome_matches_model", got == want,
             f"{label}: op#{idx} finalize({k}) with n/r/max_n={before}, "
             f"told={told}: outcome {got}, model says {exp}",
             model=exp, outcome=got, max_n_known=known is not None)
        after = (s.n, s.r, s.max_n)
        if got == "ok" and exp == "accept":
            H.count("accepted")
            H.ck("accept_sets_state", after == (k, before[1], k),
                 f"{label}: op#{idx} finalize({k}) accepted, n/r/max_n "
                 f"{before} -> {after}, expected ({k}, {before[1]}, {k})")
            try:
                t.finalize(k)
            except Exception as e:
                H.ck("stream_unchanged_by_rejected_calls", False,
                     f"{label}: twin rejected the finalize({k}) the subject "
                     f"accepted: {e!r}")
            known = k
            shadow = k
            expect_ef = True
            accepted_k = k
            fin_after_last_forward = (
                last_forward is not None and last_forward.n0 < k)
        elif got == "ok":
            if exp == "noop":
                H.count("noop")
            H.ck("reject_leaves_state", after == before,
                 f"{label}: op#{idx} finalize({k}) [{exp}] changed "
                 f"n/r/max_n {before} -> {after}")
            if exp != "noop" and got == "ok":
                # wrongly accepted: keep the twin in step to avoid cascades
                try:
                    t.finalize(k)
                except Exception:
                    pass
                if known is None:
                    known = k
        else:
            H.count("rejected_value" if got == "ValueError"
                    else "rejected_runtime")
            H.ck("reject_leaves_state", after == before,
                 f"{label}: op#{idx} finalize({k}) raised {got} but changed "
                 f"n/r/max_n {before} -> {after}")
    # executability of the remaining stream after an in-range acceptance
    n_forwards = sum(1 for a in emitted if isinstance(a, Forward))
    if cfg["cls"] == "SingleMemory" and n_forwards > 1:
        # more than sys.maxsize steps: outside what a solver can do, and the
        # executor's "a Forward replaces WORK" does not model it (DESIGN 8)
        fin_after_last_forward = False
    if online and accepted_k is not None and fin_after_last_forward:
        ex = Executor(cfg, accepted_k)
        for a in emitted:
            if ex.step(a):
                ex.finalize_done(True)
        cap = 50 * accepted_k + 100
        cnt = 0
        while cnt < cap and ex.phase != "done":
            (ra, a) = _next(s)
            if a is None:
                break
            cnt += 1
            if ex.step(a):
                ex.finalize_done(True)
            if isinstance(a, EndReverse):
                break
            if isinstance(a, EndForward) and cfg["cls"] == "None":
                break
        bad = [v for v in ex.violations if v["prop"] in ("C01", "C02", "C12")]
        H.ck("remaining_stream_executable",
             not bad and (ex.passes >= 1 or cfg["cls"] == "None"),
             f"{label}: after finalize({accepted_k}) the remaining stream is "
             f"not executable / incomplete: "
             f"{[(v['rule'], v['msg']) for v in bad[:2]]} passes={ex.passes}")
    return nontrivial


def run_case(case, ctx):
    if case.get("kind") == "suite":
        from ..suite import suite_case
        return suite_case(case)
    cfg = case["cfg"]
    H = Hist()
    nt = 0
    n_hist = 0
    keys = []
    if "history" in case:
        hists = [case["history"]]
    else:
        alpha = ["next"] + ["fin:" + s for s in SYMS[:9]]
        hists = ([case["prefix"] + list(rest)
                  for rest in itertools.product(alpha,
                                                repeat=case["enumerate"])])
    try:
        build_captured(cfg)
    except Exception:
        # construction failures are C17's / C01's business, not finalize's
        return {"violations": contracts.drain(), "evals": {},
                "counters": {"construct_errors": 1}, "nontrivial": False,
                "key": cfg_str(cfg) + "|construct"}
    for h in hists:
        try:
            if run_history(cfg, h, H):
                nt += 1
        except Exception as e:
            H.ck("outcome_matches_model", False,
                 f"{cfg_str(cfg)} history={h}: harness/library exception "
                 f"{e!r}")
        n_hist += 1
    viols = H.viols + contracts.drain()
    out = {"violations": viols, "evals": H.evals,
           "counters": {"histories": n_hist, "nontrivial_histories": nt},
           "nontrivial": nt > 0,
           "key": cfg_str(cfg) + str(case.get("history") or
                                     (case.get("prefix"), case["enumerate"]))}
    if "history" in case and nt:
        out["sample"] = {"cfg": cfg, "history": case["history"]}
    return out


def finish(m, tier, seed):
    return {"coverage": {
        "histories_run": m["counters"].get("histories", 0),
        "nontrivial_histories": m["counters"].get("nontrivial_histories", 0),
        "exhaustive_note": "all histories of length "
                           f"{5 if tier == 'thorough' else 4} over the "
                           "10-letter alphabet for the online classes "
                           "(length-1 shorter for offline classes) were "
                           "enumerated; longer ones are seeded random"}}


close_context = S.close_context
