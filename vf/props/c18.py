"""C18 - actions are well-formed value objects: well-formedness of every
emitted action (executor rules) + algebraic laws on pools of emitted and
directly constructed actions."""
import itertools
import random
import sys

from . import _stream as S
from .. import contracts
from ..common import (cs, Forward, Reverse, Copy, Move, EndForward,
                      EndReverse, StorageType, cfg_str, act_str)
from ..drivers import run_stream

PROP = "C18"
LEVEL = "exploration"
BLOCK = 32   # neighbouring configurations share a worker process
RULE = ("(a) stream cases: every action emitted by the common stream set "
        "(all ten classes; Mixed additionally through the tabulated branch "
        "that carries numpy integers) is checked for field types and "
        "ranges, and the distinct emitted actions are put through the unary "
        "laws; (b) pool cases: seeded pools of directly constructed actions "
        "(incl. sys.maxsize spans, equal twins, same args under a different "
        "kind) are put through the equality laws on ALL ordered pairs, "
        "comparison with foreign objects, repr round trip and len / "
        "iteration / membership; non-trivial = every case (pools always "
        "contain equal and unequal pairs; stream cases with >= 3 distinct "
        "action kinds); distinct = distinct case")
REQUIRED = ["C18.forward_types", "C18.forward_range", "C18.reverse_range",
            "C18.transfer_types", "C18.forward_storage_written",
            "C18.forward_none_nothing", "C18.eq_never_raises",
            "C18.eq_iff_same_kind_and_args", "C18.eq_foreign_object",
            "C18.repr_round_trip", "C18.len_matches_span",
            "C18.iteration_enumerates_steps", "C18.membership_matches_span",
            "C18.numpy_int_actions_seen"]
ASSUMPTIONS = ["value comparison inside the checker is (type, args), "
               "independent of the __eq__ under test",
               "repr is evaluated in a namespace holding the package's "
               "public names, sys and numpy as np"]

ST = [StorageType.RAM, StorageType.DISK, StorageType.WORK, StorageType.NONE]


def cases(tier, seed):
    th = tier == "thorough"
    out = S.make_cases(tier, seed, 2, None, scale=1.0 if th else 0.5)
    for c in out:
        c["kind"] = "stream"
    rng = random.Random(seed * 122949829 + 18)
    mixed_tab = []
    for n in range(1, 30 if th else 14):
        for s in (1, 2, 3):
            mixed_tab.append({"kind": "stream", "tab": True, "passes": 1,
                              "observe": None,
                              "cfg": {"cls": "Mixed", "n": n, "s": s,
                                      "storage": rng.choice(["RAM",
                                                             "DISK"])}})
    out += mixed_tab
    for i in range(400 if th else 60):
        out.append({"kind": "pool", "pseed": rng.randrange(2 ** 31),
                    "size": 50 if th else 36})
    # online schedules that are NOT finalised at once: every further
    # pre-finalisation Forward must be well formed too
    for k in range(1, 7 if th else 5):
        for c in ("SingleMemory", "SingleDiskCopy", "SingleDiskMove", "None"):
            out.append({"kind": "prefix", "k": k, "cfg": {"cls": c, "n": 0}})
        for p in (1, 3, 8):
            out.append({"kind": "prefix", "k": k,
                        "cfg": {"cls": "TwoLevel", "n": 0, "period": p,
                                "bs": 1, "storage": "RAM",
                                "traj": "maximum"}})
    return out


def make_context(tier, seed):
    return S.make_context(tier, seed, ["finalize"])


def namespace():
    import numpy as np
    ns = {k: getattr(cs, k) for k in dir(cs) if not k.startswith("_")}
    ns["sys"] = sys
    ns["np"] = np
    ns["numpy"] = np
    return ns


def same_value(a, b):
    if type(a) is not type(b):
        return False
    if len(a.args) != len(b.args):
        return False
    for x, y in zip(a.args, b.args):
        if isinstance(x, StorageType) or isinstance(y, StorageType):
            if x is not y:
                return False
        elif x != y:
            return False
    return True


class Laws:
    def __init__(self):
        self.viols = []
        self.evals = {}

    def ck(self, rule, cond, msg):
        k = "C18." + rule
        self.evals[k] = self.evals.get(k, 0) + 1
        if not cond and len(self.viols) < 8:
            self.viols.append({"prop": "C18", "rule": rule, "msg": msg,
                               "i": None, "action": None, "detail": {}})

    def unary(self, a, ns):
        # repr round trip
        try:
            r = repr(a)
            b = eval(r, dict(ns))
            self.ck("repr_round_trip", same_value(a, b),
                    f"eval(repr(a)) = {act_str(b)} is not equal by value to "
                    f"a = {r}")
        except Exception as e:
            self.ck("repr_round_trip", False,
                    f"repr/eval round trip of {act_str(a)} raised {e!r}")
        # a equals a fresh twin, never raises
        try:
            twin = type(a)(*a.args)
            self.ck("eq_iff_same_kind_and_args", (a == twin) is True,
                    f"{act_str(a)} == an equal twin gave {a == twin!r}")
        except Exception as e:
            self.ck("eq_never_raises", False,
                    f"{act_str(a)} == twin raised {e!r}")
        for other in (5, None, "x", (1, 2), a.args):
            try:
                res = (a == other)
                self.ck("eq_foreign_object", not res,
                        f"{act_str(a)} == {other!r} gave {res!r}")
            except Exception as e:
                self.ck("eq_foreign_object", False,
                        f"{act_str(a)} == {other!r} raised {e!r}")
        if isinstance(a, (Forward, Reverse)):
            n0, n1 = int(a.n0), int(a.n1)
            span = n1 - n0
            if 0 < span <= sys.maxsize:
                try:
                    self.ck("len_matches_span", len(a) == span,
                            f"len({act_str(a)}) = {len(a)}, span {span}")
                except Exception as e:
                    self.ck("len_matches_span", False,
                            f"len({act_str(a)}) raised {e!r}")
                try:
                    got = list(itertools.islice(iter(a), 40))
                    if isinstance(a, Forward):
                        exp = list(itertools.islice(
                            iter(range(n0, n1)), 40))
                    else:
                        exp = list(itertools.islice(
                            iter(range(n1 - 1, n0 - 1, -1)), 40))
                    ok = [int(x) for x in got] == exp
                    if span <= 400:
                        full = [int(x) for x in a]
                        exp_full = (list(range(n0, n1))
                                    if isinstance(a, Forward)
                                    else list(range(n1 - 1, n0 - 1, -1)))
                        ok = ok and full == exp_full
                    self.ck("iteration_enumerates_steps", ok,
                            f"iteration of {act_str(a)} starts {got[:6]}, "
                            f"expected {exp[:6]}")
                except Exception as e:
                    self.ck("iteration_enumerates_steps", False,
                            f"iteration of {act_str(a)} raised {e!r}")
                try:
                    probes = {n0 - 1, n0, n0 + 1, (n0 + n1) // 2, n1 - 1, n1,
                              n1 + 1}
                    bad = [x for x in probes
                           if bool(x in a) != (n0 <= x < n1)]
                    self.ck("membership_matches_span", not bad,
                            f"membership of {bad[:3]} in {act_str(a)} is "
                            "wrong")
                except Exception as e:
                    self.ck("membership_matches_span", False,
                            f"membership test on {act_str(a)} raised {e!r}")

    def pair(self, a, b):
        exp = same_value(a, b)
        try:
            got = (a == b)
        except Exception as e:
            self.ck("eq_never_raises", False,
                    f"{act_str(a)} == {act_str(b)} raised {e!r}")
            return
        self.ck("eq_never_raises", True, "")
        self.ck("eq_iff_same_kind_and_args", bool(got) == exp
                and isinstance(got, bool),
                f"{act_str(a)} == {act_str(b)} gave {got!r}, expected {exp}")


def make_pool(rng, size):
    pool = []
    big = sys.maxsize

    def rint():
        k = rng.randrange(6)
        if k == 0:
            return rng.randint(0, 3)
        if k == 1:
            return rng.randint(0, 300)
        if k == 2:
            return rng.choice([0, 1, big - 1, big, big + 1, 2 * big])
        return rng.randint(0, 40)
    while len(pool) < size:
        k = rng.randrange(8)
        if k in (0, 1, 2):
            n0 = rint()
            n1 = n0 + rng.choice([1, 1, 2, 3, 7, rng.randint(1, 200), big])
            wi, wa = rng.choice([(True, False), (False, True),
                                 (False, False)])
            if wi or wa:
                st = rng.choice([StorageType.RAM, StorageType.DISK,
                                 StorageType.WORK])
            else:
                st = rng.choice([StorageType.WORK, StorageType.NONE])
            pool.append(Forward(n0, n1, wi, wa, st))
        elif k in (3, 4):
            n0 = rint()
            n1 = n0 + rng.choice([1, 1, 2, 5, rng.randint(1, 200)])
            pool.append(Reverse(n1, n0, rng.random() < 0.5))
        elif k == 5:
            pool.append(Copy(rint(), rng.choice(ST[:2]), rng.choice(ST)))
        elif k == 6:
            pool.append(Move(rint(), rng.choice(ST[:2]), rng.choice(ST)))
        else:
            pool.append(rng.choice([EndForward, EndReverse])())
    # equal twins and same-args-different-kind
    extra = []
    for a in rng.sample(pool, min(8, len(pool))):
        extra.append(type(a)(*a.args))
        if isinstance(a, Copy):
            extra.append(Move(*a.args))
        elif isinstance(a, Move):
            extra.append(Copy(*a.args))
        elif isinstance(a, EndForward):
            extra.append(EndReverse())
        elif isinstance(a, Reverse):
            extra.append(Copy(*a.args))
    return pool + extra


def run_case(case, ctx):
    L = Laws()
    ns = namespace()
    if case["kind"] == "pool":
        rng = random.Random(case["pseed"])
        pool = make_pool(rng, case["size"])
        for a in pool:
            L.unary(a, ns)
        for a in pool:
            for b in pool:
                L.pair(a, b)
        return {"violations": L.viols + contracts.drain(), "evals": L.evals,
                "counters": {"pool_actions": len(pool),
                             "pairs": len(pool) ** 2},
                "nontrivial": True, "key": f"pool {case['pseed']}",
                "sample": {"kind": "pool", "first": [act_str(a)
                                                     for a in pool[:6]]}}
    from checkpoint_schedules import mixed
    cfg = case["cfg"]
    if case["kind"] == "prefix":
        return run_prefix(case, L, ns)
    saved = mixed.numba
    if case.get("tab"):
        mixed.numba = object()
    try:
        distinct = {}
        import vf.drivers as D
        # run the stream, collecting the action objects themselves
        try:
            s, _ = D.build_captured(cfg)
        except Exception as e:
            # construction failures are C17's / C01's business
            mixed.numba = saved
            return {"violations": contracts.drain(), "evals": {},
                    "counters": {"construct_errors": 1},
                    "nontrivial": False, "key": cfg_str(cfg)}
        from ..executor import Executor
        ex = Executor(cfg, cfg["n"])
        want = D.default_passes(cfg, case.get("passes", 1))
        cap = 40 * max(cfg["n"], 1) * max(want, 1) + 200
        idx = 0
        numpy_ints = 0
        while idx < cap:
            try:
                a = next(s)
            except StopIteration:
                break
            except Exception:
                break
            idx += 1
            if ex.step(a):
                try:
                    s.finalize(cfg["n"])
                    ex.finalize_done(True)
                except Exception:
                    break
            if len(distinct) < 120:
                try:
                    key = (type(a).__name__,) + tuple(
                        x.name if isinstance(x, StorageType) else
                        (int(x) if not isinstance(x, bool) else x)
                        for x in a.args)
                except Exception:
                    key = id(a)
                distinct.setdefault(key, a)
            if any(type(x).__module__ == "numpy" for x in a.args):
                numpy_ints += 1
            if ex.passes >= want or (ex.phase == "done"):
                break
    finally:
        mixed.numba = saved
    acts = list(distinct.values())
    for a in acts:
        L.unary(a, ns)
    for a, b in zip(acts, acts[1:]):
        L.pair(a, b)
        L.pair(b, a)
    viols = [v for v in ex.violations] + L.viols + contracts.drain()
    evals = dict(ex.evals)
    for k, v in L.evals.items():
        evals[k] = evals.get(k, 0) + v
    kinds = len({type(a).__name__ for a in acts})
    counters = {"emitted_actions_checked": idx,
                "distinct_emitted_actions_in_laws": len(acts)}
    if numpy_ints:
        counters["C18.numpy_int_actions_seen"] = numpy_ints
    return {"violations": viols, "evals": evals, "counters": counters,
            "nontrivial": kinds >= 3,
            "key": cfg_str(cfg) + ("|tab" if case.get("tab") else ""),
            "sample": {"cfg": cfg, "tabulated_branch": bool(case.get("tab")),
                       "emitted": [act_str(a) for a in acts[:5]]}
            if kinds >= 3 else None}


def run_prefix(case, L, ns):
    """k+1 next() calls on an online schedule without finalising, then a
    finalisation inside the last Forward and the rest of the first pass."""
    import vf.drivers as D
    from ..executor import Executor
    cfg = dict(case["cfg"])
    s, _ = D.build_captured(cfg)
    acts = []
    last = None
    for _ in range(case["k"] + 1):
        try:
            a = next(s)
        except Exception:
            break
        acts.append(a)
        if isinstance(a, Forward):
            last = a
    n_true = None
    if last is not None:
        try:
            n0, n1 = int(last.n0), int(last.n1)
            n_true = n0 + 1 if n1 > n0 else None
        except Exception:
            n_true = None
    ex = Executor(dict(cfg, n=n_true or 1), n_true or 1)
    if n_true is None:
        # malformed last Forward: run the field checks only
        for a in acts:
            ex.step(a)
    else:
        fin = False
        for a in acts:
            if ex.step(a) and not fin:
                fin = True
        try:
            s.finalize(n_true)
            ex.finalize_done(True)
        except Exception:
            pass
        cap = 60
        while cap > 0 and ex.phase != "done" and ex.passes < 1:
            cap -= 1
            try:
                a = next(s)
            except Exception:
                break
            acts.append(a)
            ex.step(a)
            if isinstance(a, EndForward) and cfg["cls"] == "None":
                break
    for a in acts[:40]:
        L.unary(a, ns)
    viols = [v for v in ex.violations if v["prop"] == "C18"] + L.viols
    evals = {k: v for k, v in ex.evals.items() if k.startswith("C18.")}
    for k, v in L.evals.items():
        evals[k] = evals.get(k, 0) + v
    return {"violations": viols + contracts.drain(), "evals": evals,
            "counters": {"prefix_histories": 1,
                         "emitted_actions_checked": len(acts)},
            "nontrivial": case["k"] >= 1,
            "key": f"prefix {cfg_str(cfg)} k={case['k']}",
            "sample": {"kind": "prefix", "cfg": cfg, "k": case["k"],
                       "emitted": [act_str(a) for a in acts[:4]]}}


close_context = S.close_context
