"""C16 - Mixed schedules are identical with and without numba: tabulated
planner vs memoised planner, entry by entry and stream by stream."""
import random

from . import _stream as S
from .. import contracts
from .. import oracles as O
from ..common import cfg_str

PROP = "C16"
LEVEL = "exploration"
RULE = ("(a) tables: mixed_steps_tabulation(n, s)[n_i, s_i] compared with "
        "mixed_step_memoization(n_i, s_i) for every 1 <= n_i <= n, "
        "1 <= s_i <= s (the region s_i > n_i - 1 that the iterator indexes "
        "included) and with an independent cost table; (b) streams: "
        "MixedCheckpointSchedule run with the module global mixed.numba "
        "re-bound to a sentinel (tabulated branch, un-jitted) and with "
        "numba = None (memoised branch), both through the executor, "
        "compared by value; non-trivial = table with n > s + 1 / stream "
        "with n > s + 1; distinct = distinct (kind, n, s, storage)")
REQUIRED = ["C16.table_entry_equals_memo", "C16.streams_equal_by_value",
            "probe.tabulated_branch_used", "probe.memoised_branch_used",
            "C16.table_cost_is_optimum"]
ASSUMPTIONS = ["numba is not installed and not installable here: the "
               "tabulated algorithm is executed by CPython through the "
               "repository's own identity njit; effects of compilation "
               "itself (int64 wrap-around, typed containers) are not "
               "observable"]


def cases(tier, seed):
    th = tier == "thorough"
    rng = random.Random(seed * 86028121 + 16)
    out = []
    for n in range(1, (40 if th else 28)):
        for s in range(1, min(n + 2, 9 if th else 7)):
            out.append({"kind": "table", "n": n, "s": s})
    big = [(60, 6), (120, 9), (200, 4)] + ([(400, 7), (600, 5), (300, 12)]
                                           if th else [])
    for n, s in big:
        out.append({"kind": "table", "n": n, "s": s})
    # one very long single-unit table: costs beyond 2**31 (narrow integer
    # arithmetic in a vectorised or compiled column shows up here)
    out.append({"kind": "table", "n": 100000 if th else 70000, "s": 1})
    for _ in range(40 if th else 6):
        out.append({"kind": "table", "n": rng.randint(20, 260 if th else 110),
                    "s": rng.randint(1, 12)})
    for n in range(1, (70 if th else 44)):
        for s in range(1, (9 if th else 6)):
            out.append({"kind": "stream", "n": n, "s": s,
                        "storage": "RAM" if (n + s) % 2 else "DISK"})
    out.append({"kind": "stream", "n": 1, "s": 0, "storage": "DISK"})
    for _ in range(300 if th else 30):
        n = int(2 + rng.random() ** 2 * ((500 if th else 160) - 2))
        out.append({"kind": "stream", "n": n,
                    "s": rng.choice([1, 2, 3, 5, 8, rng.randint(1, 20)]),
                    "storage": rng.choice(["RAM", "DISK"])})
    rng.shuffle(out)
    return out


def make_context(tier, seed):
    ctx = S.make_context(tier, seed, ["mixed", "invariant"])
    from checkpoint_schedules import mixed
    if not getattr(mixed.mixed_steps_tabulation, "_vf", False):
        orig = mixed.mixed_steps_tabulation

        def mixed_steps_tabulation(*a, **k):
            contracts.EVALS["probe.mixed_steps_tabulation_calls"] += 1
            return orig(*a, **k)
        mixed_steps_tabulation._vf = True
        mixed_steps_tabulation.__wrapped__ = orig
        mixed.mixed_steps_tabulation = mixed_steps_tabulation
    return ctx


def run_case(case, ctx):
    from checkpoint_schedules import mixed
    viols, evals, counters = [], {}, {}

    def ck(rule, cond, msg, **detail):
        evals["C16." + rule] = evals.get("C16." + rule, 0) + 1
        if not cond and len(viols) < 8:
            viols.append({"prop": "C16", "rule": rule, "msg": msg, "i": None,
                          "action": None, "detail": detail})

    n, s = case["n"], case["s"]
    if case["kind"] == "table":
        tab = mixed.mixed_steps_tabulation(n, s)
        M = O.mixed_opt_table(n, s)
        for n_i in range(1, n + 1):
            for s_i in range(0 if n_i == 1 else 1, s + 1):
                got = tuple(int(x) for x in tab[n_i, s_i])
                memo = mixed.mixed_step_memoization(n_i, s_i)
                exp = (int(memo[0]), int(memo[1]), int(memo[2]))
                ck("table_entry_equals_memo", got == exp,
                   f"mixed_steps_tabulation({n},{s})[{n_i},{s_i}] = {got} "
                   f"but mixed_step_memoization({n_i},{s_i}) = {exp}",
                   n_i=n_i, s_i=s_i)
                ck("table_cost_is_optimum", got[2] == M[n_i][s_i],
                   f"mixed_steps_tabulation({n},{s})[{n_i},{s_i}] cost "
                   f"{got[2]}, optimum {M[n_i][s_i]}")
        viols += contracts.drain()
        return {"violations": viols, "evals": evals,
                "counters": {"table_entries": n * s},
                "nontrivial": n > s + 1, "key": f"table n={n},s={s}",
                "sample": {"kind": "table", "n": n, "s": s,
                           "entry[n,s]": [int(x) for x in tab[n, s]]}
                if n > s + 1 and n < 30 else None}
    cfg = {"cls": "Mixed", "n": n, "s": s, "storage": case["storage"]}
    streams = {}
    saved = mixed.numba
    for mode in ("memo", "tab"):
        before = contracts.EVALS["probe.mixed_steps_tabulation_calls"]
        mixed.numba = None if mode == "memo" else object()
        try:
            res = S.run_stream_case({"cfg": cfg, "passes": 1,
                                     "observe": None}, record=True)
        finally:
            mixed.numba = saved
        used_tab = contracts.EVALS["probe.mixed_steps_tabulation_calls"] \
            > before
        if mode == "tab" and used_tab:
            counters["probe.tabulated_branch_used"] = 1
        if mode == "memo" and not used_tab:
            counters["probe.memoised_branch_used"] = 1
        r = S.result_of(res, {"cfg": cfg, "passes": 1}, False)
        for v in r["violations"]:
            v.setdefault("detail", {})["branch"] = mode
        viols.extend(r["violations"])
        for k, v in r["evals"].items():
            evals[k] = evals.get(k, 0) + v
        if res.ex is not None and res.completed:
            streams[mode] = res.actions
    if len(streams) == 2:
        a, b = streams["memo"], streams["tab"]
        first = next((i for i, (x, y) in enumerate(zip(a, b)) if x != y),
                     None)
        ck("streams_equal_by_value", a == b,
           f"{cfg_str(cfg)}: memoised and tabulated streams differ at action "
           f"#{first}: {a[first] if first is not None else len(a)} vs "
           f"{b[first] if first is not None else len(b)}")
    else:
        ck("both_branches_complete", False,
           f"{cfg_str(cfg)}: only {sorted(streams)} completed")
    nt = n > s + 1
    out = {"violations": viols, "evals": evals, "counters": counters,
           "nontrivial": nt, "key": f"stream {cfg_str(cfg)}"}
    if nt and "tab" in streams:
        out["sample"] = {"cfg": cfg, "first_actions_tabulated":
                         [list(x) for x in streams["tab"][:8]]}
    return out


close_context = S.close_context
