"""C04 - storage is clean when a schedule concludes; nothing accumulates from pass to pass."""
from . import _stream as S

PROP = "C04"
LEVEL = "exploration"
BLOCK = 32   # neighbouring configurations share a worker process
RULE = ("all ten classes, grid + seeded random, 1..4 adjoint passes; at every EndReverse the executor store must be empty (single-pass classes) or equal to the store at EndForward (multi-pass); non-trivial = >= 1 checkpoint written; distinct = distinct (class, parameters, passes)")
REQUIRED = ["C04.store_empty_at_end", "C04.store_equals_end_forward"]
ASSUMPTIONS = ["executor semantics follow tests/test_validity.py",
               "library imported from /repo working tree"]


def cases(tier, seed):
    return S.make_cases(tier, seed, 4 if tier == "thorough" else 3, None)


def make_context(tier, seed):
    return S.make_context(tier, seed, ["finalize", "n_advance"])


def nontrivial(res, case):
    ex = res.ex
    if ex is None:
        return False
    return sum(ex.writes.values()) >= 1


def run_case(case, ctx):
    res = S.run_stream_case(case, record=True)
    nt = nontrivial(res, case)
    out = S.result_of(res, case, nt)
    if nt:
        out["sample"] = S.sample_of(res, case)
    return out


close_context = S.close_context
