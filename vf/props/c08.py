"""C08 - n, r and max_n report where the execution actually is."""
from . import _stream as S

PROP = "C08"
LEVEL = "exploration"
BLOCK = 32   # neighbouring configurations share a worker process
RULE = ("all ten classes, grid + seeded random, all permitted passes, observer reads interleaved; after every action schedule.n / r / max_n are compared with the executor (n only while a forward state is defined); class invariant contract active; non-trivial = n >= 2 and >= 1 load; distinct = distinct (class, parameters, passes)")
REQUIRED = ["C08.n_matches_forward", "C08.r_matches_reversed", "C08.max_n_true", "C08.max_n_unknown", "C08.initial_state", "contract.schedule_invariant"]
ASSUMPTIONS = ["executor semantics follow tests/test_validity.py",
               "library imported from /repo working tree"]


def cases(tier, seed):
    out = S.make_cases(tier, seed, 4 if tier == "thorough" else 3, "full")
    if tier == "thorough":
        out.insert(0, {"kind": "suite", "file": "tests/test_validity.py"})
    return out


def make_context(tier, seed):
    return S.make_context(tier, seed, ["invariant", "finalize"])


def nontrivial(res, case):
    ex = res.ex
    if ex is None:
        return False
    return case["cfg"]["n"] >= 2 and sum(ex.loads.values()) >= 1


def run_case(case, ctx):
    if case.get("kind") == "suite":
        from ..suite import suite_case
        return suite_case(case)
    res = S.run_stream_case(case, record=True)
    nt = nontrivial(res, case)
    out = S.result_of(res, case, nt)
    if nt:
        out["sample"] = S.sample_of(res, case)
    return out


close_context = S.close_context
