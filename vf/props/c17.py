"""C17 - valid parameters always yield a schedule; invalid ones fail before
any action (exhaustive box around the domain boundary)."""
from . import _stream as S
from .. import contracts
from ..common import build_captured, cfg_str, act_str
from ..drivers import run_stream

PROP = "C17"
LEVEL = "exploration"
RULE = ("complete enumeration of a box around the domain boundary: max_n in "
        "-1..N, unit counts 0..max_n+2, all four StorageType members, "
        "period -1..4, both trajectories, binomial_snapshots 0..3, ten "
        "extreme cost vectors (disk 10^4..10^6 times a step, free disk, "
        "steps of 10^-4 / 10^6) for the Revolve family, every "
        "finalisation point 1..N for the online classes; valid tuples must "
        "construct and yield a complete, executor-clean stream; invalid "
        "tuples (max_n < 1, period < 1, no unit for max_n > 1, storage not "
        "RAM/DISK) must raise at construction or at the first next(); "
        "non-trivial = tuples with max_n <= 2, zero units, more units than "
        "steps, or an invalid field; distinct = distinct tuple")
REQUIRED = ["C17.valid_tuple_completes", "C17.invalid_tuple_fails_early",
            "C17.degenerate_max_n_1", "C17.more_units_than_steps"]
ASSUMPTIONS = ["only the four stated ways of being invalid are asserted to "
               "fail; (max_n = 1, ram = 0) for the Revolve family is "
               "unspecified and either outcome is accepted provided no "
               "action precedes a failure; negative unit counts are outside "
               "the stated domain"]
EXHAUSTIVE = {"quick": True, "thorough": True}


def cases(tier, seed):
    th = tier == "thorough"
    N = 10 if th else 6
    out = []
    for n in range(1, N + 1):
        for c in ("SingleMemory", "SingleDiskCopy", "SingleDiskMove", "None"):
            out.append({"cfg": {"cls": c, "n": n}})
    for n in range(-1, N + 1):
        for ram in range(0, max(n, 0) + 3):
            for disk in range(0, max(n, 0) + 3):
                for tr in ("maximum", "revolve"):
                    out.append({"cfg": {"cls": "Multistage", "n": n,
                                        "ram": ram, "disk": disk,
                                        "traj": tr}})
                out.append({"cfg": {"cls": "HRevolve", "n": n, "ram": ram,
                                    "disk": disk}})
            for c in ("Revolve", "DiskRevolve", "PeriodicDiskRevolve"):
                out.append({"cfg": {"cls": c, "n": n, "ram": ram}})
                if th:
                    out.append({"cfg": {"cls": c, "n": n, "ram": ram,
                                        "costs": [2, 1, 1, 3]}})
            for st in ("RAM", "DISK", "WORK", "NONE"):
                out.append({"cfg": {"cls": "Mixed", "n": n, "s": ram,
                                    "storage": st}})
    # valid tuples with extreme (but positive / non-negative) step costs:
    # very expensive and free disk, very cheap and very expensive steps
    extremes = [([1, 1, 8000, 8000], (1, 2)), ([1e-4, 1, 2, 2], (1,)),
                ([1, 1e6, 2, 2], (1, 2)), ([1e6, 1, 2, 2], (1, 2)),
                ([1, 1, 1e5, 0], (1,)), ([1, 1, 1e6, 1e6], (1,)),
                ([1, 1, 20000, 100], (1,)), ([1, 1, 0, 0], (1, 2, 3)),
                ([0.5, 0.25, 0.125, 0], (1, 2)), ([3, 1, 700, 0.5], (1, 2))]
    for v, rams in extremes:
        for ram in rams:
            for n in (1, 2, 3, 7, 12):
                for c in ("Revolve", "DiskRevolve", "PeriodicDiskRevolve"):
                    out.append({"cfg": {"cls": c, "n": n, "ram": ram,
                                        "costs": list(v)}})
                for d in (0, 1, 3):
                    out.append({"cfg": {"cls": "HRevolve", "n": n,
                                        "ram": ram, "disk": d,
                                        "costs": list(v)}})
    for p in range(-1, 5):
        for bs in range(0, 4):
            for st in ("RAM", "DISK", "WORK", "NONE"):
                for tr in ("maximum", "revolve"):
                    for n in range(1, N + 1):
                        out.append({"cfg": {"cls": "TwoLevel", "n": n,
                                            "period": p, "bs": bs,
                                            "storage": st, "traj": tr}})
    return out


def classify(cfg):
    """'valid' | 'invalid' | 'unspecified'"""
    c = cfg["cls"]
    n = cfg["n"]
    if c in ("SingleMemory", "SingleDiskCopy", "SingleDiskMove", "None"):
        return "valid"
    if c == "TwoLevel":
        if cfg["period"] < 1 or cfg["storage"] not in ("RAM", "DISK"):
            return "invalid"
        return "valid"
    if n < 1:
        return "invalid"
    if c == "Multistage":
        return "valid" if (n == 1 or cfg["ram"] + cfg["disk"] >= 1) \
            else "invalid"
    if c == "Mixed":
        if cfg["storage"] not in ("RAM", "DISK"):
            return "invalid"
        return "valid" if (n == 1 or cfg["s"] >= 1) else "invalid"
    # Revolve family
    if cfg["ram"] >= 1:
        return "valid"
    return "unspecified" if n == 1 else "invalid"


def make_context(tier, seed):
    return S.make_context(tier, seed, ["finalize", "invariant"])


def first_next_outcome(cfg):
    """('construct_error'|'first_next_error'|'action'|'stop', info)"""
    try:
        s, _ = build_captured(cfg)
    except Exception as e:
        return "construct_error", repr(e)
    try:
        a = next(s)
    except StopIteration:
        return "stop", None
    except Exception as e:
        return "first_next_error", repr(e)
    return "action", act_str(a)


def run_case(case, ctx):
    cfg = case["cfg"]
    kind = classify(cfg)
    viols, evals, counters = [], {}, {"class." + kind: 1}

    def ck(rule, cond, msg, **detail):
        evals["C17." + rule] = evals.get("C17." + rule, 0) + 1
        if not cond:
            viols.append({"prop": "C17", "rule": rule, "msg": msg, "i": None,
                          "action": None, "detail": detail})

    units = cfg.get("ram", 0) + cfg.get("disk", 0) + cfg.get("s", 0) \
        + cfg.get("bs", 0)
    if kind == "valid":
        # "always yield a schedule" includes: after another schedule of the
        # same class was abandoned half-way, or while one is paused
        h = (sum(ord(ch) for ch in cfg_str(cfg))) % 6
        keep = None
        if h in (1, 2, 4) and cfg["cls"] not in ("SingleMemory", "None"):
            from ..drivers import safe_stepper
            other = dict(cfg)
            if h == 2 and cfg["n"] >= 1:
                other["n"] = cfg["n"] + 1
            sib = safe_stepper(other, passes=1)
            for _ in range(2 + h):
                sib.step()
            counters["abandoned_or_paused_siblings"] = 1
            if h == 4:
                keep = sib          # stays alive (paused) during the run
            del sib
        res = run_stream(cfg, passes=1, observe=None,
                         protocol="for" if h == 3 else "next")
        if keep is not None:
            keep.run()
        if res.construct_error is not None:
            ck("valid_tuple_completes", False,
               f"{cfg_str(cfg)} is in the documented domain but "
               f"construction raised {res.construct_error!r}",
               exc=type(res.construct_error).__name__, at="construction")
        else:
            bad = [v for v in res.violations if v["prop"] in ("C01", "C02")]
            ck("valid_tuple_completes", res.completed and not bad,
               f"{cfg_str(cfg)} is in the documented domain but the stream "
               f"is incomplete / not executable: error={res.error!r} "
               f"{[(v['rule'], v['msg']) for v in bad[:2]]}")
            for k, v in res.ex.evals.items():
                evals[k] = evals.get(k, 0) + v
        if cfg["n"] == 1:
            evals["C17.degenerate_max_n_1"] = 1
        if cfg["n"] >= 1 and units > cfg["n"] - 1 and units > 0:
            evals["C17.more_units_than_steps"] = 1
    else:
        out, info = first_next_outcome(cfg)
        if kind == "invalid":
            ck("invalid_tuple_fails_early",
               out in ("construct_error", "first_next_error"),
               f"{cfg_str(cfg)} is outside the documented domain but the "
               f"first next() gave {out}: {info}", outcome=out)
        else:
            # unspecified: either a complete stream or an early failure
            if out == "action":
                res = run_stream(cfg, passes=1, observe=None)
                bad = [v for v in res.violations
                       if v["prop"] in ("C01", "C02")]
                ck("unspecified_tuple_all_or_nothing",
                   res.completed and not bad,
                   f"{cfg_str(cfg)} (unspecified) emitted an action but the "
                   f"stream is incomplete: {res.error!r}")
            else:
                ck("unspecified_tuple_all_or_nothing", True, "")
    viols += [v for v in contracts.drain()]
    nt = (cfg["n"] <= 2 or kind != "valid" or units == 0
          or units > cfg["n"] - 1)
    return {"violations": viols, "evals": evals, "counters": counters,
            "nontrivial": nt, "key": cfg_str(cfg),
            "sample": {"cfg": cfg, "classified": kind} if nt and
            kind != "valid" else None}


def finish(m, tier, seed):
    return {"coverage": {"box": "max_n in -1..%d" % (10 if tier == "thorough"
                                                     else 6),
                         "tuples_valid": m["counters"].get("class.valid", 0),
                         "tuples_invalid": m["counters"].get("class.invalid",
                                                             0),
                         "tuples_unspecified":
                             m["counters"].get("class.unspecified", 0)}}


close_context = S.close_context
