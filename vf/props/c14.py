"""C14 - Multistage RAM/disk split changes only labels and minimises disk
traffic (offline checker over sibling stream logs)."""
import random

from . import _stream as S
from .. import contracts
from ..common import cfg_str

PROP = "C14"
LEVEL = "exploration"
RULE = ("each case is one (n, trajectory, s): the streams of ALL splits "
        "ram + disk = s (plus over-provisioned splits) are recorded and "
        "compared modulo the storage label; stack positions are "
        "reconstructed from writes and Moves and must keep one label; RAM "
        "positions <= declared; DISK accesses (writes + loads) compared with "
        "total - (sum of the min(ram, P) largest per-position access "
        "counts); non-trivial = s >= 2, n >= 4 and a split with both "
        "storages in use; distinct = distinct (n, trajectory, s)")
REQUIRED = ["C14.label_free_streams_equal", "C14.position_keeps_label",
            "C14.ram_positions_le_declared", "C14.disk_accesses_minimal",
            "probe.allocate_snapshots"]
ASSUMPTIONS = ["checkpoints form a stack (last written, first deleted), as "
               "in binomial checkpointing; positions are depths at write "
               "time"]


def cases(tier, seed):
    th = tier == "thorough"
    rng = random.Random(seed * 67867967 + 14)
    out = []
    nmax, smax = (64, 12) if th else (36, 8)
    for n in range(2, nmax + 1):
        for s in range(1, smax + 1):
            for tr in ("maximum", "revolve"):
                out.append({"n": n, "s": s, "traj": tr})
    for _ in range(600 if th else 40):
        n = int(3 + rng.random() ** 2 * ((3000 if th else 400) - 3))
        out.append({"n": n, "s": rng.choice([2, 3, 4, 5, 8, 12, 20]),
                    "traj": rng.choice(["maximum", "revolve"]),
                    "sample_splits": 5})
    # many stack positions (> 1000): numeric tie-breaks, sort stability
    big = [(1500, 1400, "revolve"), (1300, 1150, "maximum"),
           (2600, 2300, "revolve")] + ([(4200, 4000, "revolve"),
                                        (6600, 2200, "maximum")] if th
                                       else [])
    for n, s_, tr in big:
        out.append({"n": n, "s": s_, "traj": tr,
                    "splits": [[0, s_], [50, s_ - 50], [s_ // 2, s_ - s_ // 2],
                               [s_ - 1, 1], [s_, 0]]})
    rng.shuffle(out)
    return out


_probe = {"n": 0}


def make_context(tier, seed):
    ctx = S.make_context(tier, seed, ["n_advance", "invariant"])
    from checkpoint_schedules import multistage
    if not getattr(multistage.allocate_snapshots, "_vf", False):
        orig = multistage.allocate_snapshots

        def allocate_snapshots(*a, **k):
            contracts.EVALS["probe.allocate_snapshots"] += 1
            r = orig(*a, **k)
            return r
        allocate_snapshots._vf = True
        allocate_snapshots.__wrapped__ = orig
        multistage.allocate_snapshots = allocate_snapshots
    return ctx


def unlabel(actions):
    return [tuple("UNIT" if x in ("RAM", "DISK") else x for x in a)
            for a in actions]


def analyse(actions):
    """Returns (labels per position, per-position access counts,
    consistent?, disk accesses, message)."""
    stack = []           # steps
    label = {}
    acc = {}
    ok = True
    msg = None
    disk_acc = 0
    for a in actions:
        if a[0] == "Forward" and a[5] in ("RAM", "DISK"):
            pos = len(stack)
            stack.append(a[1])
            if pos in label and label[pos] != a[5]:
                ok = False
                msg = f"position {pos} written as {a[5]}, earlier {label[pos]}"
            label.setdefault(pos, a[5])
            acc[pos] = acc.get(pos, 0) + 1
            if a[5] == "DISK":
                disk_acc += 1
        elif a[0] in ("Copy", "Move"):
            _, step, src, dst = a
            if step not in stack:
                ok = False
                msg = f"{a}: step not on the checkpoint stack"
                continue
            pos = len(stack) - 1 - stack[::-1].index(step)
            if label.get(pos) != src:
                ok = False
                msg = (f"{a}: position {pos} is labelled {label.get(pos)} "
                       f"but read from {src}")
            acc[pos] = acc.get(pos, 0) + 1
            if src == "DISK":
                disk_acc += 1
            if a[0] == "Move":
                # (deleting below the top is unusual but not C14's business)
                del stack[pos]
    return label, acc, ok, disk_acc, msg


def run_case(case, ctx):
    n, s, tr = case["n"], case["s"], case["traj"]
    viols, evals, counters = [], {}, {}

    def ck(rule, cond, msg, **detail):
        evals["C14." + rule] = evals.get("C14." + rule, 0) + 1
        if not cond:
            viols.append({"prop": "C14", "rule": rule, "msg": msg, "i": None,
                          "action": None, "detail": detail})

    splits = [(ram, s - ram) for ram in range(0, s + 1)]
    if "splits" in case:
        splits = [tuple(x) for x in case["splits"]]
    elif "sample_splits" in case and len(splits) > case["sample_splits"]:
        rng = random.Random(n * 31 + s)
        mid = rng.sample(splits[1:-1], case["sample_splits"] - 2)
        splits = [splits[0]] + sorted(mid) + [splits[-1]]
    else:
        # over-provisioned variants of the same total (clamped by n-1)
        if s >= n - 1:
            splits += [(n - 1, n - 1), (s + 2, 1), (1, s + 2)]
    ref = None
    ref_split = None
    both = False
    for (ram, disk) in splits:
        cfg = {"cls": "Multistage", "n": n, "ram": ram, "disk": disk,
               "traj": tr}
        res = S.run_stream_case({"cfg": cfg, "passes": 1, "observe": None},
                                record=True)
        r = S.result_of(res, {"cfg": cfg, "passes": 1}, False)
        viols.extend(r["violations"])
        for k, v in r["evals"].items():
            evals[k] = evals.get(k, 0) + v
        for k, v in r["counters"].items():
            counters[k] = counters.get(k, 0) + v
        if res.ex is None or not res.completed:
            continue
        acts = res.actions
        total_units = min(ram + disk, n - 1)
        u = unlabel(acts)
        if ram + disk == s or total_units == min(s, n - 1):
            if ref is None:
                ref, ref_split = u, (ram, disk)
            else:
                ck("label_free_streams_equal", u == ref,
                   f"Multistage(n={n}, traj={tr}): split {(ram, disk)} and "
                   f"split {ref_split} differ beyond storage labels")
        label, acc, ok, disk_acc, msg = analyse(acts)
        ck("position_keeps_label", ok,
           f"{cfg_str(cfg)}: {msg}")
        n_ram = sum(1 for v in label.values() if v == "RAM")
        n_disk = sum(1 for v in label.values() if v == "DISK")
        if n_ram and n_disk:
            both = True
        ck("ram_positions_le_declared", n_ram <= ram,
           f"{cfg_str(cfg)}: {n_ram} stack positions labelled RAM, "
           f"{ram} declared")
        ck("disk_positions_le_declared", n_disk <= disk,
           f"{cfg_str(cfg)}: {n_disk} stack positions labelled DISK, "
           f"{disk} declared")
        P = len(label)
        rr = min(ram, P)
        counts = sorted(acc.values(), reverse=True)
        minimal = sum(counts) - sum(counts[:rr])
        ck("disk_accesses_minimal", disk_acc == minimal,
           f"{cfg_str(cfg)}: {disk_acc} DISK accesses, the minimum with "
           f"{rr} of {P} positions in RAM is {minimal} "
           f"(per-position accesses {acc})", got=disk_acc, minimum=minimal)
    nt = s >= 2 and n >= 4 and both
    viols += contracts.drain()
    out = {"violations": viols, "evals": evals, "counters": counters,
           "nontrivial": nt, "key": f"n={n},s={s},traj={tr}"}
    if nt:
        out["sample"] = {"n": n, "s": s, "traj": tr,
                         "splits": [list(x) for x in splits]}
    return out


close_context = S.close_context
