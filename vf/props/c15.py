"""C15 - a schedule's stream depends only on its own parameters
(differential: fresh-interpreter baseline vs polluted / interleaved /
threaded / fault-injected histories; memo-cache audit)."""
import json
import os
import random
import subprocess
import sys
import threading

from . import _stream as S
from .. import contracts
from .. import oracles as O
from .. import probes
from ..common import cfg_str, build_captured, ST_BY_NAME
from ..drivers import Stepper, run_stream, safe_stepper

PROP = "C15"
LEVEL = "exploration"
RULE = ("each case is one target configuration and one seeded history of a "
        "given kind: 'neighbours' (every configuration that differs from "
        "the target in exactly one parameter is built and iterated first), "
        "'sequential' (constructions, complete / partial / "
        "abandoned iterations of parameter-neighbours, failed "
        "constructions, observer reads, direct helper calls, then the "
        "target with observer reads between actions), 'roundrobin' (live "
        "schedules incl. two copies of the target advanced in seeded random "
        "order), 'threads' (T threads running neighbours and target copies "
        "under sys.setswitchinterval(1e-6) with sleep(0) injected by a "
        "sys.monitoring LINE callback inside the memoisation wrappers and "
        "planners), 'abort' (planner computations aborted by a source-free "
        "failpoint, then the target).  Every target stream is compared by "
        "value with the stream printed by a FRESH interpreter; the three "
        "memo dictionaries are audited against the oracles at the end of "
        "every case; non-trivial = target stream with >= 1 load; distinct = "
        "distinct (target, history kind, history seed)")
REQUIRED = ["C15.stream_equals_fresh_interpreter", "C15.history.neighbours",
            "C15.history.sequential",
            "C15.history.roundrobin", "C15.history.threads",
            "C15.history.abort", "C15.failpoints_fired",
            "C15.yields_injected", "C15.observer_reads"]
ASSUMPTIONS = ["thread schedules are whatever the injected yields and the "
               "1e-6 switch interval produced; counts of injected yields and "
               "observed thread switches are reported, not controlled",
               "bounded history length"]


def targets(tier, seed):
    rng = random.Random(seed * 160481183 + 15)
    th = tier == "thorough"
    T = []
    k = 20 if th else 5
    for _ in range(k):
        T.append({"cls": "Multistage", "n": rng.randint(4, 70),
                  "ram": rng.randint(0, 3), "disk": rng.randint(1, 4),
                  "traj": rng.choice(["maximum", "revolve"])})
        T.append({"cls": "Multistage", "n": rng.randint(4, 24),
                  "ram": rng.randint(1, 3), "disk": rng.randint(1, 3),
                  "traj": rng.choice(["maximum", "revolve"])})
        T.append({"cls": "Mixed", "n": rng.randint(4, 60),
                  "s": rng.randint(1, 5),
                  "storage": rng.choice(["RAM", "DISK"])})
        T.append({"cls": "TwoLevel", "n": rng.randint(3, 60),
                  "period": rng.randint(1, 9), "bs": rng.randint(0, 3),
                  "storage": rng.choice(["RAM", "DISK"]),
                  "traj": rng.choice(["maximum", "revolve"])})
        T.append({"cls": "HRevolve", "n": rng.randint(3, 45),
                  "ram": rng.randint(1, 3), "disk": rng.randint(0, 3),
                  "costs": rng.choice([[1, 1, 2, 2], [2, 1, 1, 3],
                                       [1, 2, 7, 0], [1, 1, 0, 0]])})
        T.append({"cls": rng.choice(["Revolve", "DiskRevolve",
                                     "PeriodicDiskRevolve"]),
                  "n": rng.randint(3, 50), "ram": rng.randint(1, 3),
                  "costs": rng.choice([[1, 1, 2, 2], [3, 1, 2, 2],
                                       [1, 1, 9, 9]])})
    T.append({"cls": "Mixed", "n": 270 if th else 90, "s": 3,
              "storage": "DISK"})
    T.append({"cls": "Multistage", "n": 300, "ram": 2, "disk": 2,
              "traj": "maximum"})
    T.append({"cls": "SingleDiskCopy", "n": 7})
    T.append({"cls": "SingleDiskMove", "n": 5})
    T.append({"cls": "SingleMemory", "n": 9})
    T.append({"cls": "None", "n": 4})
    return T


def bulk_targets(tier, seed):
    """Many small targets for the cheap 'neighbours' history."""
    rng = random.Random(seed * 7368787 + 151)
    th = tier == "thorough"
    T = []
    for n in range(3, 15):
        for ram in (1, 2, 3):
            for disk in (1, 2, 3):
                for tr in ("maximum", "revolve"):
                    T.append({"cls": "Multistage", "n": n, "ram": ram,
                              "disk": disk, "traj": tr})
    for n in range(3, 26, 2):
        for ram in (1, 2, 3):
            for v in ([1, 1, 2, 2], [3, 1, 6, 6], [1, 3, 2, 2], [4, 1, 1, 1]):
                for c in ("Revolve", "DiskRevolve", "PeriodicDiskRevolve"):
                    T.append({"cls": c, "n": n, "ram": ram, "costs": v})
                T.append({"cls": "HRevolve", "n": n, "ram": ram,
                          "disk": rng.randint(0, 3), "costs": v})
    for n in range(3, 30):
        for s_ in (1, 2, 3, 4):
            T.append({"cls": "Mixed", "n": n, "s": s_,
                      "storage": rng.choice(["RAM", "DISK"])})
        T.append({"cls": "TwoLevel", "n": n, "period": rng.randint(1, 7),
                  "bs": rng.randint(0, 3),
                  "storage": rng.choice(["RAM", "DISK"]),
                  "traj": rng.choice(["maximum", "revolve"])})
    rng.shuffle(T)
    T = T[:(len(T) if th else 260)]
    for n in (1, 3, 6):
        for c in ("SingleDiskCopy", "SingleDiskMove", "SingleMemory", "None"):
            T.append({"cls": c, "n": n})
    return T


def cases(tier, seed):
    th = tier == "thorough"
    out = []
    for ti, t in enumerate(bulk_targets(tier, seed)):
        out.append({"target": t, "kind": "neighbours",
                    "hseed": (seed * 1013 + ti) % (2 ** 31), "length": 0,
                    "threads": 0})
    reps = 4 if th else 1
    for ti, t in enumerate(targets(tier, seed)):
        for kind in ("sequential", "roundrobin", "threads", "abort"):
            for r in range(reps):
                out.append({"target": t, "kind": kind,
                            "hseed": (seed * 1009 + ti * 31 + r * 7 +
                                      len(kind) * 101) % (2 ** 31),
                            "length": (60 if th else 14),
                            "threads": 12 if th else 6})
    return out


def make_context(tier, seed):
    # no planner contracts here: the memo dictionaries stay directly
    # reachable and the planners run exactly as in production
    contracts.install(["invariant", "finalize"])
    return {"baselines": {}}


# ----------------------------------------------------------------- baseline
def fresh_stream(cfg, ctx):
    key = json.dumps(cfg, sort_keys=True)
    if key in ctx["baselines"]:
        return ctx["baselines"][key]
    env = dict(os.environ)
    p = subprocess.run([sys.executable, "-B", "-m", "vf.fresh", key, "2"],
                       capture_output=True, text=True, timeout=600, env=env)
    line = [ln for ln in p.stdout.splitlines() if ln.startswith("@@STREAM@@")]
    if p.returncode != 0 or not line:
        raise RuntimeError(f"fresh interpreter failed: {p.stderr[-500:]}")
    st = [tuple(a) for a in json.loads(line[0][len("@@STREAM@@"):])]
    ctx["baselines"][key] = st
    return st


# ---------------------------------------------------------------- neighbours
def neighbours(cfg, rng):
    from ..workloads import single_param_neighbours
    out = single_param_neighbours(cfg, rng)
    rng.shuffle(out)
    out = out[:10]
    for _ in range(6):
        c = dict(cfg)
        for k in list(c):
            if k in ("n", "ram", "disk", "s", "bs", "period") and \
                    rng.random() < 0.6:
                c[k] = max(0 if k in ("ram", "disk", "bs") else 1,
                           c[k] + rng.choice([-2, -1, 1, 2, 5, c[k]]))
            elif k == "costs" and rng.random() < 0.5:
                c[k] = rng.choice([[1, 1, 2, 2], [2, 1, 1, 3], [1, 3, 2, 2],
                                   [1, 2, 7, 0], [1, 1, 9, 9], [5, 1, 1, 1]])
            elif k == "traj" and rng.random() < 0.3:
                c[k] = rng.choice(["maximum", "revolve"])
            elif k == "storage" and rng.random() < 0.3:
                c[k] = rng.choice(["RAM", "DISK"])
        if c["cls"] == "Multistage" and c["n"] > 1 and \
                c["ram"] + c["disk"] == 0:
            c["disk"] = 1
        if c["cls"] in ("Revolve", "DiskRevolve", "PeriodicDiskRevolve",
                        "HRevolve") and c["ram"] < 1:
            c["ram"] = 1
        out.append(c)
    # other classes with related sizes
    n = cfg["n"]
    out.append({"cls": "Mixed", "n": n, "s": rng.randint(1, 4),
                "storage": "RAM"})
    out.append({"cls": "Multistage", "n": n + rng.randint(0, 3),
                "ram": 1, "disk": rng.randint(0, 3), "traj": "revolve"})
    out.append({"cls": "HRevolve", "n": max(2, n // 2 + 1), "ram": 1,
                "disk": 2, "costs": [2, 1, 1, 3]})
    out.append({"cls": "TwoLevel", "n": n, "period": rng.randint(1, 5),
                "bs": rng.randint(0, 2), "storage": "RAM",
                "traj": "maximum"})
    return out


BAD = [{"cls": "Mixed", "n": 5, "s": 2, "storage": "WORK"},
       {"cls": "Multistage", "n": 0, "ram": 1, "disk": 1, "traj": "maximum"},
       {"cls": "HRevolve", "n": 6, "ram": 0, "disk": 2},
       {"cls": "TwoLevel", "n": 3, "period": 0, "bs": 1, "storage": "RAM",
        "traj": "maximum"},
       {"cls": "Mixed", "n": 6, "s": 0, "storage": "RAM"},
       {"cls": "Revolve", "n": -1, "ram": 2}]


def helper_calls(rng, n):
    from checkpoint_schedules import mixed, multistage
    for _ in range(rng.randint(1, 4)):
        nn = max(1, n + rng.randint(-3, 3))
        ss = rng.randint(1, 6)
        try:
            rng.choice([multistage.optimal_steps_binomial,
                        mixed.optimal_steps_mixed,
                        mixed.mixed_step_memoization])(nn, ss)
        except Exception:
            pass


def observer_reads(s):
    c = 0
    if s is None:
        return 0
    for st in ST_BY_NAME.values():
        try:
            s.uses_storage_type(st)
        except Exception:
            pass
        c += 1
    _ = (s.n, s.r, s.max_n, s.is_running)
    try:
        _ = s.is_exhausted
    except Exception:
        pass
    return c + 5


# -------------------------------------------------------------- cache audit
def _find_cache(fn):
    seen = set()
    f = fn
    while f is not None and id(f) not in seen:
        seen.add(id(f))
        co = getattr(f, "__code__", None)
        if co is not None and f.__closure__:
            for name, cell in zip(co.co_freevars, f.__closure__):
                if name == "_cache":
                    try:
                        return cell.cell_contents
                    except ValueError:
                        return None
        f = getattr(f, "__wrapped__", None)
    return None


def audit_caches():
    from checkpoint_schedules import mixed, multistage
    from checkpoint_schedules.schedule import StepType
    bad = []
    audited = 0
    c = _find_cache(multistage.optimal_extra_steps)
    for (n, s), v in list((c or {}).items()):
        audited += 1
        if v != O.gw_extra(n, s):
            bad.append(f"optimal_extra_steps cache[({n},{s})] = {v}, "
                       f"Griewank-Walther {O.gw_extra(n, s)}")
    c = _find_cache(mixed.optimal_steps_mixed)
    for (n, s), v in list((c or {}).items()):
        audited += 1
        if v != O.mixed_opt(n, s):
            bad.append(f"optimal_steps_mixed cache[({n},{s})] = {v}, "
                       f"optimum {O.mixed_opt(n, s)}")
    c = _find_cache(mixed.mixed_step_memoization)
    for (n, s), v in list((c or {}).items()):
        audited += 1
        try:
            kind, ln, cost = v
            ok = cost == O.mixed_opt(n, s) and (
                (kind == StepType.FORWARD_REVERSE and n == 1) or
                (kind == StepType.WRITE_ADJ_DEPS and ln == 1 and n >= 2) or
                (kind == StepType.WRITE_ICS and 2 <= ln < n))
        except Exception:
            ok = False
        if not ok:
            bad.append(f"mixed_step_memoization cache[({n},{s})] = {v}, "
                       f"optimum {O.mixed_opt(n, s)}")
    return audited, bad


# ------------------------------------------------------------------ histories
def hist_sequential(target, rng, length, ev):
    live = []
    nb = neighbours(target, rng)
    for c in nb[:10]:
        try:
            Stepper(c).run()
        except Exception:
            ev["history_op_errors"] = ev.get("history_op_errors", 0) + 1
    for _ in range(length):
        op = rng.randrange(7)
        try:
            if op == 0:
                Stepper(rng.choice(nb)).run()
            elif op == 1:
                st = Stepper(rng.choice(nb))
                for _ in range(rng.randint(0, 25)):
                    st.step()
                if rng.random() < 0.5:
                    live.append(st)         # abandoned but kept alive
            elif op == 2:
                s, _ = build_captured(rng.choice(nb))
                live.append(s)
            elif op == 3:
                try:
                    s, _ = build_captured(rng.choice(BAD))
                    next(s)
                except Exception:
                    ev["failed_constructions"] = \
                        ev.get("failed_constructions", 0) + 1
            elif op == 4:
                helper_calls(rng, target["n"])
            elif op == 5 and live:
                x = rng.choice(live)
                ev["C15.observer_reads"] = ev.get("C15.observer_reads", 0) \
                    + observer_reads(x.s if isinstance(x, Stepper) else x)
            else:
                st = Stepper(dict(target))      # same parameters, abandoned
                for _ in range(rng.randint(1, 10)):
                    st.step()
                live.append(st)
        except Exception as e:     # neighbours may be invalid: not a verdict
            ev["history_op_errors"] = ev.get("history_op_errors", 0) + 1
    # the target, with observer reads between its actions
    res = run_stream(target, passes=2, observe="full",
                     rng=random.Random(rng.random()), record=True)
    ev["C15.observer_reads"] = ev.get("C15.observer_reads", 0) \
        + res.observations + res.flag_reads
    if res.construct_error is not None:
        streams = [[("construct raised",
                     type(res.construct_error).__name__)]]
    else:
        streams = [list(res.actions or [])]
        if res.error is not None and res.error != "StopIteration":
            streams[0].append(("raised", type(res.error).__name__))
    # and a second object with equal parameters, no reads
    streams.append(_strip(safe_stepper(dict(target)).run()))
    return streams, live


def hist_neighbours(target, rng, ev):
    """All single-parameter neighbours are constructed and iterated to the
    end, in seeded order, then the target (twice)."""
    from ..workloads import single_param_neighbours
    nb = single_param_neighbours(target, rng)
    rng.shuffle(nb)
    for c in nb:
        try:
            Stepper(c).run()
            ev["neighbour_streams"] = ev.get("neighbour_streams", 0) + 1
        except Exception:
            ev["history_op_errors"] = ev.get("history_op_errors", 0) + 1
    first = _strip(safe_stepper(dict(target)).run())
    # ... and the other order: the target is constructed first, then every
    # neighbour is constructed (every second one also iterated), and only
    # then is the target iterated
    late = safe_stepper(dict(target))
    keep = []
    for j, c in enumerate(nb):
        try:
            st = safe_stepper(c)
            if j % 2:
                st.run()
            keep.append(st)
        except Exception:
            pass
    second = _strip(late.run())
    return [first, second], keep


def _strip(stream):
    return [a for a in stream if a[0] not in ("StopIteration",)]


def hist_roundrobin(target, rng, length, ev):
    nb = neighbours(target, rng)
    pool = [safe_stepper(dict(target)), safe_stepper(dict(target))]
    for _ in range(min(6, 2 + length // 4)):
        try:
            pool.append(Stepper(rng.choice(nb)))
        except Exception:
            pass
    steps = 0
    order_sig = 0
    while any(not p.done for p in pool):
        i = rng.randrange(len(pool))
        if pool[i].done:
            continue
        pool[i].step()
        steps += 1
        order_sig = (order_sig * 31 + i) % (2 ** 61 - 1)
        if rng.random() < 0.1:
            ev["C15.observer_reads"] = ev.get("C15.observer_reads", 0) \
                + observer_reads(pool[rng.randrange(len(pool))].s)
    ev["interleaved_steps"] = ev.get("interleaved_steps", 0) + steps
    return [_strip(pool[0].stream), _strip(pool[1].stream)], pool


def hist_threads(target, rng, length, ev, nthreads):
    from checkpoint_schedules import mixed, multistage
    nb = neighbours(target, rng)
    codes = probes.code_objects(name_filter=lambda c: c.co_name in (
        "wrapped_fn", "optimal_extra_steps", "optimal_steps_mixed",
        "mixed_step_memoization", "n_advance", "get_hopt_table",
        "get_opt_0_table", "revolve", "hrevolve_aux", "hrevolve_recurse",
        "shift", "insert_sequence", "disk_revolve", "periodic_disk_revolve",
        "allocate_snapshots", "__next__", "finalize", "write"))
    results = [None] * nthreads
    errors = []

    def work(i, seed):
        r = random.Random(seed)
        got = []
        try:
            for j in range(2):
                if r.random() < 0.5:
                    try:
                        Stepper(r.choice(nb)).run()
                    except Exception:
                        pass
                got.append(_strip(safe_stepper(dict(target)).run()))
                if r.random() < 0.5:
                    helper_calls(r, target["n"])
        except Exception as e:
            errors.append(repr(e))
        results[i] = got

    seeds = [rng.randrange(2 ** 31) for _ in range(nthreads)]
    inj = probes.YieldInjector(codes, random.Random(rng.random()), prob=0.03)
    from .. import common
    old_si = sys.getswitchinterval()
    with common.quiet():
        common.NO_REDIRECT[0] = True
        sys.setswitchinterval(1e-4)
        try:
            with inj:
                ths = [threading.Thread(target=work, args=(i, seeds[i]))
                       for i in range(nthreads)]
                for t in ths:
                    t.start()
                for t in ths:
                    t.join(600)
        finally:
            sys.setswitchinterval(old_si)
            common.NO_REDIRECT[0] = False
    ev["C15.yields_injected"] = ev.get("C15.yields_injected", 0) + inj.yields
    ev["thread_switches_observed"] = \
        ev.get("thread_switches_observed", 0) + inj.switches
    ev["monitored_line_events"] = \
        ev.get("monitored_line_events", 0) + inj.events
    if errors:
        ev["thread_errors"] = ev.get("thread_errors", 0) + len(errors)
    streams = [s for r in results if r for s in r]
    return streams, (errors,)


def hist_abort(target, rng, length, ev):
    nb = neighbours(target, rng)
    codes = probes.code_objects(name_filter=lambda c: c.co_name in (
        "wrapped_fn", "optimal_extra_steps", "optimal_steps_mixed",
        "mixed_step_memoization", "mixed_steps_tabulation", "n_advance",
        "get_hopt_table", "get_opt_0_table", "get_opt_inf_table", "revolve",
        "hrevolve_aux", "hrevolve_recurse", "hrevolve", "disk_revolve",
        "periodic_disk_revolve", "allocate_snapshots", "shift", "insert",
        "insert_sequence", "_iterator", "write"))
    fired = 0
    for _ in range(max(3, length // 3)):
        cfg = dict(target) if rng.random() < 0.5 else rng.choice(nb)
        k = int(1 + rng.random() ** 2 * 600)
        fi = probes.FaultInjector(codes, k)
        try:
            with fi:
                st = Stepper(cfg)
                st.run()
                if rng.random() < 0.3:
                    helper_calls(rng, target["n"])
        except probes.Injected:
            pass
        except Exception:
            ev["history_op_errors"] = ev.get("history_op_errors", 0) + 1
        if fi.fired:
            fired += 1
    ev["C15.failpoints_fired"] = ev.get("C15.failpoints_fired", 0) + fired
    streams = [_strip(safe_stepper(dict(target)).run()),
               _strip(safe_stepper(dict(target)).run())]
    return streams, None


def run_case(case, ctx):
    target, kind = case["target"], case["kind"]
    rng = random.Random(case["hseed"])
    viols, evals, ev = [], {}, {}

    def ck(rule, cond, msg, **detail):
        evals["C15." + rule] = evals.get("C15." + rule, 0) + 1
        if not cond and len(viols) < 6:
            viols.append({"prop": "C15", "rule": rule, "msg": msg, "i": None,
                          "action": None, "detail": detail})

    base = fresh_stream(target, ctx)
    base = _strip(base)
    if kind == "neighbours":
        streams, keep = hist_neighbours(target, rng, ev)
    elif kind == "sequential":
        streams, keep = hist_sequential(target, rng, case["length"], ev)
    elif kind == "roundrobin":
        streams, keep = hist_roundrobin(target, rng, case["length"], ev)
    elif kind == "threads":
        streams, keep = hist_threads(target, rng, case["length"], ev,
                                     case["threads"])
    else:
        streams, keep = hist_abort(target, rng, case["length"], ev)
    ev["C15.history." + kind] = 1
    for si, st in enumerate(streams):
        st = [tuple(a) for a in st]
        first = next((i for i, (x, y) in enumerate(zip(st, base)) if x != y),
                     None)
        if first is None and len(st) != len(base):
            first = min(len(st), len(base))
        ck("stream_equals_fresh_interpreter", st == base,
           f"{cfg_str(target)} after a '{kind}' history (seed "
           f"{case['hseed']}): stream #{si} differs from the fresh "
           f"interpreter's at action #{first}: "
           f"{st[first] if first is not None and first < len(st) else None}"
           f" vs {base[first] if first is not None and first < len(base) else None}",
           kind=kind)
    audited, bad = audit_caches()
    ev["cache_entries_audited"] = audited
    ck("memo_caches_match_oracle", not bad,
       f"after a '{kind}' history on {cfg_str(target)}: {bad[:3]}")
    viols += contracts.drain()
    nloads = sum(1 for a in base if a[0] in ("Copy", "Move"))
    return {"violations": viols, "evals": evals, "counters": ev,
            "nontrivial": nloads >= 1,
            "key": f"{cfg_str(target)}|{kind}|{case['hseed']}",
            "sample": {"target": target, "history": kind,
                       "hseed": case["hseed"], "stream_len": len(base),
                       "streams_compared": len(streams)}}


close_context = S.close_context
