"""C11 - uses_storage_type never under-reports and never raises."""
from . import _stream as S

PROP = "C11"
LEVEL = "exploration"
BLOCK = 32   # neighbouring configurations share a worker process
RULE = ("all ten classes, grid + seeded random; uses_storage_type queried for all four StorageType members before the first next(), after a seeded random quarter of the actions and after the end; storages touched are taken from the executor log; non-trivial = stream touches RAM or DISK; distinct = distinct (class, parameters)")
REQUIRED = ["C11.query_never_raises", "C11.no_under_report"]
ASSUMPTIONS = ["executor semantics follow tests/test_validity.py",
               "library imported from /repo working tree"]


def cases(tier, seed):
    return S.make_cases(tier, seed, 4 if tier == "thorough" else 3, "full")


def make_context(tier, seed):
    return S.make_context(tier, seed, ["finalize"])


def nontrivial(res, case):
    ex = res.ex
    if ex is None:
        return False
    return len(ex.touched) >= 1


def run_case(case, ctx):
    res = S.run_stream_case(case, record=True)
    nt = nontrivial(res, case)
    out = S.result_of(res, case, nt)
    if nt:
        out["sample"] = S.sample_of(res, case)
    return out


close_context = S.close_context
