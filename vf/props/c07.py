"""C07 - H-Revolve family schedules achieve their cost optimum for any cost
vector; sibling inequalities between the family members."""
import random
from fractions import Fraction

from . import _stream as S
from .. import oracles as O
from ..common import cfg_str, DISK
from ..workloads import (COST_VECTORS_QUICK, COST_VECTORS_THOROUGH,
                         COST_VECTORS_INEXACT, random_costs, is_exact)

PROP = "C07"
LEVEL = "exploration"
USES_ORACLES = True
RULE = ("each case is one (n, ram, cost vector): Revolve, DiskRevolve, "
        "PeriodicDiskRevolve and HRevolve with d = 0..dmax disk units are "
        "all run through the executor; stream cost = uf*F + ub*R + wd*Wdisk "
        "+ rd*Ldisk from the executor's counters, compared (exactly for "
        "integer / dyadic vectors, 1e-9 otherwise) with exact-arithmetic "
        "re-implementations of the papers' recurrences, plus the three "
        "inequalities; non-trivial = n >= 4 and uf != ub or wd != rd or "
        "some HRevolve stream wrote to DISK; distinct = distinct (n, ram, "
        "costs)")
REQUIRED = ["C07.hrevolve_cost_is_optimum", "C07.diskrevolve_cost_is_optimum",
            "C07.revolve_cost_is_optimum", "C07.more_disk_never_costs_more",
            "C07.disk_revolve_le_revolve", "C07.periodic_ge_disk_revolve",
            "contract.get_hopt_table", "C07.streams_using_disk"]
ASSUMPTIONS = ["optimum = Herrmann-Pallez / Aupy et al. recurrences "
               "re-implemented in exact integers; equal to exhaustive "
               "search on the oracle_validation box",
               "taping re-execution of each step is charged uf (library "
               "accounting); the papers' optimum is shifted by uf*n"]


def cases(tier, seed):
    th = tier == "thorough"
    rng = random.Random(seed * 15485863 + 7)
    out = []
    vecs = COST_VECTORS_THOROUGH if th else COST_VECTORS_QUICK
    nmax, smax, dmax = (40, 5, 5) if th else (20, 3, 3)
    for n in range(1, nmax + 1):
        for s in range(1, smax + 1):
            for v in vecs:
                out.append({"n": n, "ram": s, "costs": list(v), "dmax": dmax})
    for v in COST_VECTORS_INEXACT:
        for n in (3, 7, 12, 19) + ((33, 60) if th else ()):
            for s in (1, 2):
                out.append({"n": n, "ram": s, "costs": list(v), "dmax": 2})
    for _ in range(1500 if th else 50):
        n = int(1 + rng.random() ** 1.5 * ((300 if th else 110) - 1))
        out.append({"n": n, "ram": rng.choice([1, 1, 2, 2, 3, 4,
                                               rng.randint(1, 8)]),
                    "costs": random_costs(rng),
                    "dmax": rng.choice([1, 2, 3, 6])})
    rng.shuffle(out)
    return out


def make_context(tier, seed):
    return S.make_context(tier, seed, ["hopt", "invariant", "mxrr"])


def stream_cost(ex, costs):
    uf, ub, wd, rd = (Fraction(c) for c in costs)
    return (uf * ex.fwd_steps + ub * ex.rev_steps + wd * ex.writes[DISK]
            + rd * ex.loads[DISK])


def _eq(a, b, exact):
    if exact:
        return a == b
    return abs(float(a) - float(b)) <= 1e-9 * max(1.0, abs(float(b)))


def _le(a, b, exact):
    if exact:
        return a <= b
    return float(a) <= float(b) + 1e-9 * max(1.0, abs(float(b)))


def run_case(case, ctx):
    n, ram, costs, dmax = case["n"], case["ram"], case["costs"], case["dmax"]
    exact = is_exact(costs)
    viols, evals, counters = [], {}, {}
    got = {}
    used_disk = 0

    def run(cfg):
        nonlocal used_disk
        run.count += 1
        res = S.run_stream_case(S.decorate(
            {"cfg": cfg, "passes": 1, "observe": None,
             "rseed": run.count}, run.count + n, 0, frac=5))
        r = S.result_of(res, {"cfg": cfg, "passes": 1}, False)
        viols.extend(r["violations"])
        for k, v in r["evals"].items():
            evals[k] = evals.get(k, 0) + v
        for k, v in r["counters"].items():
            counters[k] = counters.get(k, 0) + v
        if res.ex is not None and res.completed:
            if res.ex.writes[DISK] > 0 and cfg["cls"] == "HRevolve":
                used_disk += 1
            return stream_cost(res.ex, costs), res.ex
        return None, None

    run.count = 0

    def ck(rule, cond, msg, **detail):
        evals["C07." + rule] = evals.get("C07." + rule, 0) + 1
        if not cond:
            viols.append({"prop": "C07", "rule": rule, "msg": msg, "i": None,
                          "action": None, "detail": detail})

    uf, ub, wd, rd = costs
    base = {"n": n, "ram": ram, "costs": costs}
    c_rev, _ = run(dict(base, cls="Revolve"))
    c_disk, _ = run(dict(base, cls="DiskRevolve"))
    c_per, _ = run(dict(base, cls="PeriodicDiskRevolve"))
    if c_rev is not None:
        exp = O.rev_stream_cost(n, ram, uf, ub)
        ck("revolve_cost_is_optimum", _eq(c_rev, exp, exact),
           f"Revolve(n={n}, ram={ram}, costs={costs}) costs {c_rev}, "
           f"memory-only optimum {exp}", cls="Revolve")
    if c_disk is not None:
        exp = O.DiskRevOpt(n - 1, ram, uf, ub, wd, rd).stream_cost(n)
        ck("diskrevolve_cost_is_optimum", _eq(c_disk, exp, exact),
           f"DiskRevolve(n={n}, ram={ram}, costs={costs}) costs {c_disk}, "
           f"Disk-Revolve optimum {exp}", cls="DiskRevolve")
    if c_disk is not None and c_rev is not None:
        ck("disk_revolve_le_revolve", _le(c_disk, c_rev, exact),
           f"n={n}, ram={ram}, costs={costs}: cost(DiskRevolve)={c_disk} > "
           f"cost(Revolve)={c_rev}")
    if c_disk is not None and c_per is not None:
        ck("periodic_ge_disk_revolve", _le(c_disk, c_per, exact),
           f"n={n}, ram={ram}, costs={costs}: cost(PeriodicDiskRevolve)="
           f"{c_per} < cost(DiskRevolve)={c_disk}")
    prev = None
    for d in range(0, dmax + 1):
        c_h, ex = run(dict(base, cls="HRevolve", disk=d))
        if c_h is None:
            continue
        exp = O.hrev_stream_cost(n, ram, d, uf, ub, wd, rd)
        ck("hrevolve_cost_is_optimum", _eq(c_h, exp, exact),
           f"HRevolve(n={n}, ram={ram}, disk={d}, costs={costs}) costs "
           f"{c_h}, hierarchical optimum {exp}", cls="HRevolve", disk=d,
           uf_ne_ub=uf != ub)
        if prev is not None:
            ck("more_disk_never_costs_more", _le(c_h, prev, exact),
               f"n={n}, ram={ram}, costs={costs}: HRevolve with {d} disk "
               f"units costs {c_h} > {prev} with {d - 1}")
        prev = c_h
        got[d] = str(c_h)
    counters["C07.streams_using_disk"] = used_disk
    nt = n >= 4 and (uf != ub or wd != rd or used_disk > 0)
    out = {"violations": viols, "evals": evals, "counters": counters,
           "nontrivial": nt,
           "key": f"n={n},ram={ram},costs={costs}"}
    if nt:
        out["sample"] = {"n": n, "ram": ram, "costs": costs,
                         "cost_revolve": str(c_rev),
                         "cost_disk_revolve": str(c_disk),
                         "cost_periodic": str(c_per), "cost_hrevolve": got}
    return out


close_context = S.close_context
