"""C06 - Mixed schedules perform the minimal possible number of forward
steps, independent of the chosen storage."""
import random

from . import _stream as S
from .. import oracles as O
from ..common import cfg_str

PROP = "C06"
LEVEL = "exploration"
BLOCK = 4
USES_ORACLES = True
RULE = ("every (n, s) of the grid and seeded random larger n; each case runs "
        "MixedCheckpointSchedule with storage=RAM and storage=DISK through "
        "the executor, compares each forward-step total with an independent "
        "bottom-up table of Maddison's recurrence and the two streams "
        "modulo the storage label; contract on every planner result; "
        "non-trivial = n > s+1 (recomputation is unavoidable); distinct = "
        "distinct (n, s)")
REQUIRED = ["C06.forward_total_is_mixed_optimum",
            "C06.storage_independent", "contract.mixed_step_memoization",
            "C06.helper_is_mixed_optimum"]
ASSUMPTIONS = ["Maddison (2024) recurrence is the optimum over all "
               "executable schedules; agreement with exhaustive search is "
               "established on the oracle_validation box only"]


def cases(tier, seed):
    th = tier == "thorough"
    rng = random.Random(seed * 1299709 + 6)
    out = []
    nmax, smax = (90, 10) if th else (30, 6)
    for n in range(1, nmax + 1):
        for s in range(1, smax + 1):
            out.append({"n": n, "s": s})
    out.append({"n": 1, "s": 0})
    for n in (2, 3, 5, 9):
        out.append({"n": n, "s": n + 4})      # more units than steps
        out.append({"n": n, "s": n - 1})
    # sizes around powers of two (table growth / buffer boundaries)
    for n in (127, 128, 129, 255, 256, 257, 258, 259, 260, 300) + \
            ((511, 512, 513, 600) if th else ()):
        for s in (2, 3, 8):
            out.append({"n": n, "s": s})
    for _ in range(900 if th else 30):
        n = int(2 + rng.random() ** 2 * ((1000 if th else 260) - 2))
        out.append({"n": n, "s": rng.choice([1, 2, 3, 4, 6, 9, 13,
                                             rng.randint(1, 30)])})
    for n in range(1, (150 if th else 60) + 1):
        out.append({"kind": "helper", "n": n})
    rng.shuffle(out)
    if th:
        out.insert(0, {"kind": "suite", "file": "tests/test_mixed.py"})
    return out


def make_context(tier, seed):
    return S.make_context(tier, seed, ["mixed", "optimal", "invariant"])


def unlabel(actions):
    out = []
    for a in actions:
        out.append(tuple("UNIT" if x in ("RAM", "DISK") else x for x in a))
    return out


def run_case(case, ctx):
    if case.get("kind") == "helper":
        return run_helper(case)
    if case.get("kind") == "suite":
        from ..suite import suite_case
        return suite_case(case)
    n, s = case["n"], case["s"]
    viols, evals, counters = [], {}, {}
    if (n + 3 * s) % 4 == 0 and n >= 4:
        # an earlier planning attempt for the same problem is aborted by a
        # source-free failpoint; what it leaves behind must not matter
        from .. import probes
        from ..drivers import safe_stepper
        codes = probes.code_objects(name_filter=lambda c: c.co_name in (
            "wrapped_fn", "mixed_step_memoization", "optimal_steps_mixed",
            "_iterator"))
        for k in (5 + n, 40 + 7 * s, 400):
            fi = probes.FaultInjector(codes, k)
            try:
                with fi:
                    safe_stepper({"cls": "Mixed", "n": n, "s": s,
                                  "storage": "DISK"}, 1).run()
            except probes.Injected:
                pass
            if fi.fired:
                counters["aborted_planning_attempts"] = \
                    counters.get("aborted_planning_attempts", 0) + 1
    streams = {}
    exp = O.mixed_opt(n, min(s, n - 1)) if n > 1 else 1
    for st in ("RAM", "DISK"):
        cfg = {"cls": "Mixed", "n": n, "s": s, "storage": st}
        sub = S.decorate({"cfg": cfg, "passes": 1, "observe": None,
                          "rseed": n + s}, n * 3 + s + (st == "RAM"), 0,
                         frac=3)
        res = S.run_stream_case(sub, record=True)
        if res.ex is not None and res.completed:
            res.ex.ck("C06", "forward_total_is_mixed_optimum",
                      res.ex.fwd_steps == exp,
                      f"{cfg_str(cfg)}: {res.ex.fwd_steps} forward steps, "
                      f"optimum {exp}", None, got=res.ex.fwd_steps,
                      optimum=exp)
            streams[st] = res.actions
        r = S.result_of(res, {"cfg": cfg, "passes": 1}, False)
        for v in r["violations"]:
            v.setdefault("detail", {})["storage"] = st
        viols += r["violations"]
        for k, v in r["evals"].items():
            evals[k] = evals.get(k, 0) + v
        for k, v in r["counters"].items():
            counters[k] = counters.get(k, 0) + v
    if len(streams) == 2:
        same = unlabel(streams["RAM"]) == unlabel(streams["DISK"])
        evals["C06.storage_independent"] = 1
        if not same:
            viols.append({"prop": "C06", "rule": "storage_independent",
                          "msg": f"Mixed(n={n}, s={s}): RAM and DISK streams "
                                 "differ beyond the storage label",
                          "i": None, "action": None, "detail": {}})
    nt = n > s + 1
    out = {"violations": viols, "evals": evals, "counters": counters,
           "nontrivial": nt, "key": f"n={n},s={s}"}
    if nt and "DISK" in streams:
        out["sample"] = {"n": n, "s": s, "optimum": exp,
                         "first_actions": [list(a) for a in
                                           streams["DISK"][:10]]}
    return out


def run_helper(case):
    from checkpoint_schedules import mixed
    from .. import contracts
    n = case["n"]
    viols = []
    evals = 0
    for s in range(1, n + 3):
        try:
            got = mixed.optimal_steps_mixed(n, s)
        except Exception as e:
            got = repr(e)
        exp = O.mixed_opt(n, min(s, n - 1)) if n > 1 else 1
        evals += 1
        if got != exp:
            viols.append({"prop": "C06", "rule": "helper_is_mixed_optimum",
                          "msg": f"optimal_steps_mixed({n},{s}) = {got}, "
                                 f"optimum {exp}", "i": None, "action": None,
                          "detail": {}})
    viols += contracts.drain()
    return {"violations": viols,
            "evals": {"C06.helper_is_mixed_optimum": evals},
            "nontrivial": False, "key": f"helper n={n}"}


close_context = S.close_context
