"""C12 - WORK holds one thing at a time, no recomputation overshoots."""
from . import _stream as S

PROP = "C12"
LEVEL = "exploration"
BLOCK = 32   # neighbouring configurations share a worker process
RULE = ("all ten classes, grid + seeded random incl. cost vectors, all passes; executor rules on WORK contents and on Forward end points; non-trivial = >= 1 load and n >= 3; distinct = distinct (class, parameters, passes)")
REQUIRED = ["C12.work_deps_at_most_one", "C12.load_into_empty_work", "C12.work_deps_single_adjacent", "C12.no_overshoot"]
ASSUMPTIONS = ["executor semantics follow tests/test_validity.py",
               "library imported from /repo working tree"]


def cases(tier, seed):
    return S.make_cases(tier, seed, 4 if tier == "thorough" else 3, None)


def make_context(tier, seed):
    return S.make_context(tier, seed, ["finalize", "n_advance"])


def nontrivial(res, case):
    ex = res.ex
    if ex is None:
        return False
    return case["cfg"]["n"] >= 3 and sum(ex.loads.values()) >= 1


def run_case(case, ctx):
    res = S.run_stream_case(case, record=True)
    nt = nontrivial(res, case)
    out = S.result_of(res, case, nt)
    if nt:
        out["sample"] = S.sample_of(res, case)
    return out


close_context = S.close_context
