"""Common plumbing: locate and import the library under observation, class
registry, (de)serialisation of actions and configurations."""
import io
import os
import sys
import contextlib
import warnings

ROOT = os.environ.get("VERIF_ROOT") or os.path.dirname(
    os.path.dirname(os.path.abspath(__file__)))
REPO = os.environ.get("VERIF_REPO", "/repo")

warnings.filterwarnings("ignore", message="Numba not available")

import checkpoint_schedules as cs  # noqa: E402
from checkpoint_schedules import schedule as cs_schedule  # noqa: E402
from checkpoint_schedules import (  # noqa: E402
    Forward, Reverse, Copy, Move, EndForward, EndReverse, StorageType)

_where = os.path.realpath(cs.__file__)
if not _where.startswith(os.path.realpath(REPO) + os.sep):
    raise SystemExit(
        f"INCONCLUSIVE reason=library imported from {_where}, not {REPO}")

RAM, DISK, WORK, NONE = (StorageType.RAM, StorageType.DISK,
                         StorageType.WORK, StorageType.NONE)
ST_BY_NAME = {"RAM": RAM, "DISK": DISK, "WORK": WORK, "NONE": NONE}

ONLINE = ("SingleMemory", "SingleDiskCopy", "SingleDiskMove", "None",
          "TwoLevel")
REVOLVE_FAMILY = ("Revolve", "DiskRevolve", "PeriodicDiskRevolve", "HRevolve")
ALL_CLASSES = ONLINE + ("Multistage", "Mixed") + REVOLVE_FAMILY

# number of adjoint passes permitted (None = unlimited)
PASSES = {"None": 0, "SingleMemory": None, "SingleDiskCopy": None,
          "SingleDiskMove": 1, "TwoLevel": None, "Multistage": 1, "Mixed": 1,
          "Revolve": 1, "DiskRevolve": 1, "PeriodicDiskRevolve": 1,
          "HRevolve": 1}


def st_name(st):
    try:
        return st.name
    except AttributeError:
        return repr(st)


NO_REDIRECT = [False]   # set while threads run: redirect_stdout and
#                         warnings.catch_warnings are process-global


@contextlib.contextmanager
def quiet():
    """Swallow the library's chatter (PeriodicDiskRevolve prints its period,
    Mixed warns about numba); returns the captured text."""
    buf = io.StringIO()
    if NO_REDIRECT[0]:
        yield buf
        return
    with warnings.catch_warnings():
        warnings.simplefilter("ignore")
        with contextlib.redirect_stdout(buf):
            yield buf


def build(cfg):
    """Construct the schedule described by a JSON-able configuration dict.

    cfg = {"cls": <name>, ...parameters...}; for online classes "n" is the
    true number of steps chosen by the driver (not a constructor argument).
    Construction output is captured in cfg["_stdout"] is NOT done here: use
    build_captured.
    """
    c = cfg["cls"]
    if cfg.get("ints") == "np":
        # NumPy-typed integer parameters (what a caller gets from
        # array shapes / numpy arithmetic): same values, other type
        import numpy as np
        cfg = dict(cfg)
        for k in ("n", "ram", "disk", "s", "period", "bs"):
            if isinstance(cfg.get(k), int):
                cfg[k] = np.int64(cfg[k])
    if c == "SingleMemory":
        return cs.SingleMemoryStorageSchedule()
    if c in ("SingleDiskCopy", "SingleDiskMove"):
        # "flag": bool-like values that are not the bool singletons
        import numpy as np
        truth = c == "SingleDiskMove"
        flag = {None: truth, "np": np.bool_(truth), "int": int(truth)}[
            cfg.get("flag")]
        return cs.SingleDiskStorageSchedule(move_data=flag)
    if c == "None":
        return cs.NoneCheckpointSchedule()
    if c == "TwoLevel":
        return cs.TwoLevelCheckpointSchedule(
            cfg["period"], cfg["bs"],
            binomial_storage=ST_BY_NAME[cfg.get("storage", "DISK")],
            binomial_trajectory=cfg.get("traj", "maximum"))
    if c == "Multistage":
        return cs.MultistageCheckpointSchedule(
            cfg["n"], cfg["ram"], cfg["disk"],
            trajectory=cfg.get("traj", "maximum"))
    if c == "Mixed":
        return cs.MixedCheckpointSchedule(
            cfg["n"], cfg["s"], storage=ST_BY_NAME[cfg.get("storage", "DISK")])
    costs = cfg.get("costs", None)
    kw = {}
    if costs is not None:
        kw = dict(uf=costs[0], ub=costs[1], wd=costs[2], rd=costs[3])
    if c == "Revolve":
        return cs.Revolve(cfg["n"], cfg["ram"], **kw)
    if c == "DiskRevolve":
        return cs.DiskRevolve(cfg["n"], cfg["ram"], **kw)
    if c == "PeriodicDiskRevolve":
        return cs.PeriodicDiskRevolve(cfg["n"], cfg["ram"], **kw)
    if c == "HRevolve":
        return cs.HRevolve(cfg["n"], cfg["ram"], cfg["disk"], **kw)
    raise KeyError(c)


def build_captured(cfg):
    with quiet() as buf:
        s = build(cfg)
    return s, buf.getvalue()


def cfg_key(cfg):
    return tuple(sorted((k, tuple(v) if isinstance(v, list) else v)
                        for k, v in cfg.items() if not k.startswith("_")))


def cfg_str(cfg):
    c = cfg["cls"]
    rest = ",".join(f"{k}={cfg[k]}" for k in sorted(cfg)
                    if k != "cls" and not k.startswith("_"))
    return f"{c}({rest})"


def act_tuple(a):
    """Value of an action, independent of the __eq__/__repr__ under test."""
    out = [type(a).__name__]
    for x in a.args:
        if isinstance(x, StorageType):
            out.append(x.name)
        elif isinstance(x, bool) or type(x).__name__ in ("bool_", "bool"):
            out.append(bool(x))
        else:
            try:
                ix = x.__index__()
                out.append("MAXSIZE" if ix == sys.maxsize else int(ix))
            except Exception:
                out.append(repr(x))
    return tuple(out)


def act_str(a):
    try:
        return repr(a)
    except Exception as e:  # repr under test may be broken
        return f"<{type(a).__name__} repr failed: {e!r}>"
