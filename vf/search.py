"""Exhaustive shortest-path search over executor states: the literal "minimum
over all executable schedules".  Used only to pin the oracles of
vf/oracles.py on small boxes (DESIGN.md 2.4); makes no reference to the
library."""
import heapq
from fractions import Fraction
from itertools import count


def min_cost(n, c0, c1, uf=1, ub=0, wd=0, rd=0, mixed=False,
             disk_read_once=False):
    """Minimal cost of reversing n steps.

    Model (executor semantics of DESIGN.md 2.1, single-step transitions):
      * advance the forward one step (cost uf), not past p-1 where p is the
        adjoint position;
      * write a restart checkpoint of the step the forward stands at to RAM
        (free, at most c0 held) or DISK (cost wd, at most c1 held; c1=None:
        unbounded);
      * load a restart checkpoint (RAM free, DISK cost rd; with
        disk_read_once the disk checkpoint is consumed);
      * delete a checkpoint (free);
      * when the forward stands at p-1: advance with taping and reverse that
        step (cost uf + ub);
      * mixed=True: the c0 units may instead hold the adjoint dependencies
        of one step, recorded while advancing over it (cost uf); the step is
        reversed from the unit later (cost ub).
    Returns the optimum (Fraction) or None if infeasible.
    """
    uf, ub, wd, rd = (Fraction(x) for x in (uf, ub, wd, rd))
    if c1 is None:
        c1 = n
    start = (n, 0, frozenset(), frozenset(), frozenset())
    tie = count()
    heap = [(Fraction(0), next(tie), start)]
    best = {start: Fraction(0)}

    def canon(p, f, ram, disk, deps):
        if f is not None and f >= p:
            f = None
        ram = frozenset(c for c in ram if c < p)
        disk = frozenset(c for c in disk if c < p)
        deps = frozenset(c for c in deps if c < p)
        return (p, f, ram, disk, deps)

    while heap:
        d, _, st = heapq.heappop(heap)
        if best.get(st, None) != d:
            continue
        p, f, ram, disk, deps = st
        if p == 0:
            return d
        nxt = []
        used0 = len(ram) + len(deps)
        if f is not None:
            if f < p - 1:
                nxt.append((uf, (p, f + 1, ram, disk, deps)))
                if mixed and used0 < c0 and f not in deps:
                    nxt.append((uf, (p, f + 1, ram, disk, deps | {f})))
            if f == p - 1:
                nxt.append((uf + ub, (p - 1, None, ram, disk, deps)))
            if f not in ram and used0 < c0:
                nxt.append((Fraction(0), (p, f, ram | {f}, disk, deps)))
            if f not in disk and len(disk) < c1:
                nxt.append((wd, (p, f, ram, disk | {f}, deps)))
        if mixed and (p - 1) in deps:
            nxt.append((ub, (p - 1, f, ram, disk, deps - {p - 1})))
        for c in ram:
            if c != f:
                nxt.append((Fraction(0), (p, c, ram, disk, deps)))
        for c in disk:
            if c != f:
                nd = disk - {c} if disk_read_once else disk
                nxt.append((rd, (p, c, ram, nd, deps)))
        # deletions (only useful to free a unit)
        if used0 >= c0:
            for c in ram:
                nxt.append((Fraction(0), (p, f, ram - {c}, disk, deps)))
            for c in deps:
                nxt.append((Fraction(0), (p, f, ram, disk, deps - {c})))
        if len(disk) >= c1 and not disk_read_once:
            for c in disk:
                nxt.append((Fraction(0), (p, f, ram, disk - {c}, deps)))
        for w, s2 in nxt:
            s2 = canon(*s2)
            nd_ = d + w
            if s2 not in best or nd_ < best[s2]:
                best[s2] = nd_
                heapq.heappush(heap, (nd_, next(tie), s2))
    return None


def validate_oracles(level=0):
    """Compare every oracle with the search on a box; returns
    (n_cases, mismatches:list)."""
    from . import oracles as O
    mism = []
    cases = 0
    nb = 7 if level == 0 else 9
    for n in range(1, nb + 1):
        for s in range(1, 4):
            if n > 1:
                got = min_cost(n, s, 0)
                cases += 1
                if got != O.gw_total(n, s):
                    mism.append(("gw", n, s, str(got), O.gw_total(n, s)))
            got = min_cost(n, s, 0, mixed=True)
            cases += 1
            if got != O.mixed_opt(n, s):
                mism.append(("mixed", n, s, str(got), O.mixed_opt(n, s)))
    vecs = [(1, 1, 2, 2), (2, 1, 1, 3), (1, 3, 1, 0), (1, 1, 0, 0),
            (3, 1, 2, 1)]
    if level > 0:
        vecs += [(1, 2, 7, 0), (2, 7, 3, 11), (1, 1, 1, 1),
                 (Fraction(1, 2), 1, 3, 3), (5, 1, 1, 1)]
    nh = 6 if level == 0 else 8
    for (uf, ub, wd, rd) in vecs:
        for n in range(1, nh + 1):
            for c0 in (1, 2):
                for c1 in (0, 1, 2):
                    if level == 0 and (c0, c1) == (2, 2) and n > 5:
                        continue
                    got = min_cost(n, c0, c1, uf, ub, wd, rd)
                    exp = O.hrev_stream_cost(n, c0, c1, uf, ub, wd, rd)
                    cases += 1
                    if got != exp:
                        mism.append(("hrev", n, c0, c1, (uf, ub, wd, rd),
                                     str(got), str(exp)))
                if n <= (5 if level == 0 else 7):
                    got = min_cost(n, c0, None, uf, ub, wd, rd,
                                   disk_read_once=True)
                    exp = O.DiskRevOpt(n - 1, c0, uf, ub, wd, rd)\
                        .stream_cost(n)
                    cases += 1
                    if got != exp:
                        mism.append(("diskrev", n, c0, (uf, ub, wd, rd),
                                     str(got), str(exp)))
    return cases, mism


if __name__ == "__main__":
    import sys
    import time
    t = time.time()
    lvl = int(sys.argv[1]) if len(sys.argv) > 1 else 0
    c, m = validate_oracles(lvl)
    print(c, "cases", len(m), "mismatches", round(time.time() - t, 1), "s")
    for x in m[:20]:
        print(x)
