"""Drivers: produce histories from the real schedule objects at their public
boundary (next / finalize / observer reads) and feed them to the executor."""
import random
import sys

from .common import (build_captured, StorageType, RAM, DISK, WORK, NONE,
                     PASSES, EndForward, EndReverse, Forward, act_tuple,
                     act_str, cfg_str)
from .executor import Executor

ALL_ST = (RAM, DISK, WORK, NONE)


class StreamResult:
    def __init__(self):
        self.cfg = None
        self.n_true = None
        self.ex = None
        self.actions = None      # list of act_tuple when recorded
        self.pass_slices = []    # (start, end) action index ranges per pass
        self.stdout = ""
        self.construct_error = None
        self.error = None        # exception raised by next()/finalize
        self.error_index = None
        self.completed = False
        self.observations = 0
        self.flag_reads = 0
        self.storage_answers = None  # {storage_name: set(answers)}

    @property
    def violations(self):
        return self.ex.violations if self.ex is not None else []


def n_of(cfg):
    return cfg["n"]


def default_passes(cfg, k):
    pa = PASSES[cfg["cls"]]
    if pa is None:
        return k
    return pa


def _leave_loop(it, s):
    """What leaving a `for action in schedule:` loop with `break` does: the
    loop's iterator is dropped; if it is a separate object with a finaliser
    (a generator), CPython closes it at once."""
    if it is not None and it is not s and hasattr(it, "close"):
        try:
            it.close()
        except Exception:
            pass


def run_stream(cfg, passes=1, observe=None, rng=None, record=False,
               extra_next=3, finalize_mode="eager", overshoot_steps=0,
               protocol="next", late=0, refinalize=False, probe=False,
               after_build=None):
    """Drive one schedule to completion of `passes` adjoint calculations.

    observe: None | "flags" (is_exhausted/is_running before and after every
    action) | "full" (flags + uses_storage_type for all members at seeded
    random moments + n/r/max_n reads).
    """
    res = StreamResult()
    res.cfg = cfg
    n_true = cfg["n"]
    res.n_true = n_true
    n_fin = n_true          # the value handed to finalize()
    if cfg.get("ints") == "np":
        import numpy as np
        n_fin = np.int64(n_true)
    try:
        s, out = build_captured(cfg)
    except Exception as e:
        res.construct_error = e
        return res
    res.stdout = out
    if after_build is not None:
        # e.g. a sibling schedule constructed after this one, before the
        # first action is requested
        try:
            after_build()
        except Exception:
            pass
    ex = Executor(cfg, n_true, record=False)
    res.ex = ex
    want = default_passes(cfg, passes)
    pa = PASSES[cfg["cls"]]
    actions = [] if record else None
    answers = {st.name: set() for st in ALL_ST}
    res.storage_answers = answers
    rng = rng or random.Random(0)
    cap = 40 * max(n_true, 1) * max(want, 1) + 200
    if cfg["cls"] in ("SingleDiskCopy", "SingleDiskMove"):
        cap = 4 * n_true * (want + 1) + 50

    def sample_storage(moment):
        order = list(ALL_ST)
        rng.shuffle(order)       # the answer must not depend on query order
        for st in order:
            try:
                ans = s.uses_storage_type(st)
            except Exception as e:
                ex.ck("C11", "query_never_raises", False,
                      f"uses_storage_type({st.name}) raised {e!r} {moment}",
                      None, storage=st.name, exc=type(e).__name__)
                continue
            ex.evals["C11.query_never_raises"] += 1
            answers[st.name].add(bool(ans))
            res.observations += 1

    def read_flags(expect_exhausted, expect_running, moment, a=None,
                   final=False):
        try:
            e = s.is_exhausted
        except Exception as exn:
            ex.ck("C09", "flag_readable", False,
                  f"is_exhausted raised {exn!r} {moment}", a)
            e = None
        try:
            rn = s.is_running
        except Exception as exn:
            ex.ck("C09", "flag_readable", False,
                  f"is_running raised {exn!r} {moment}", a)
            rn = None
        res.flag_reads += 2
        if e is not None and expect_exhausted is not None:
            if expect_exhausted:
                ex.ck("C09", "exhausted_after_final_action", bool(e),
                      f"is_exhausted is {e!r} {moment} although the final "
                      "action has been emitted", a, moment=moment)
            else:
                ex.ck("C09", "not_exhausted_while_actions_remain", not e,
                      f"is_exhausted is {e!r} {moment} although actions "
                      "remain", a, moment=moment, final_pending=final)
        if rn is not None:
            if expect_running:
                ex.ck("C09", "running_after_first_next", bool(rn),
                      f"is_running is {rn!r} {moment}", a)
            else:
                ex.ck("C09", "not_running_before_first_next", not rn,
                      f"is_running is {rn!r} {moment}", a)

    if observe:
        read_flags(False, False, "before the first next()")
        sample_storage("before the first next()")
        if observe == "full":
            _ = (s.n, s.r, s.max_n)
            ex.ck("C08", "initial_state",
                  s.n == 0 and s.r == 0 and
                  (s.max_n is None if ex.online else s.max_n == n_true),
                  f"initial n/r/max_n = {s.n}/{s.r}/{s.max_n}")

    done = False
    pass_start = 0
    idx = 0
    final_emitted = False
    it = None
    late_left = late if ex.online else 0
    told = 0
    while not done:
        if idx >= cap:
            ex.ck("C02", "bounded_progress", False,
                  f"stream did not conclude within {cap} actions")
            break
        if probe and rng.random() < 0.2:
            # a finalize call that must be rejected and must change nothing:
            # beyond what the forward was told / a wrong step count / < 1
            if ex.finalized:
                ks = [0, -3, n_true + 1, n_true + 7] + \
                    ([n_true - 1] if n_true > 1 else [])
            else:
                ks = [0, told + 1, told + 9]
            k = rng.choice(ks)
            try:
                s.finalize(k)
                ex.ck("C10", "hostile_finalize_rejected", False,
                      f"finalize({k}) was accepted (finalised="
                      f"{ex.finalized}, told={told}, true n={n_true}) "
                      f"before action #{idx}")
            except (ValueError, RuntimeError):
                ex.evals["C10.hostile_finalize_rejected"] += 1
            except Exception as e:
                ex.ck("C10", "hostile_finalize_rejected", False,
                      f"finalize({k}) raised {e!r}")
            # the schedule must be exactly where it was
            try:
                mx = s.max_n
                ex.ck("C08", "max_n_after_rejected_finalize",
                      (mx == n_true) if ex.finalized else (mx is None),
                      f"after the rejected finalize({k}) max_n reads {mx} "
                      f"(finalised={ex.finalized}, true n={n_true})")
            except Exception:
                pass
        try:
            if protocol == "for":
                # the documented idiom: `for a in schedule: ...; if
                # isinstance(a, EndReverse): break`, one loop per pass
                if it is None:
                    it = iter(s)
                a = next(it)
            else:
                a = next(s)
        except StopIteration:
            # premature end of stream
            ex.ck("C02", "stream_complete", False,
                  f"StopIteration after {idx} actions: phase={ex.phase}, "
                  f"r={ex.r}, passes={ex.passes}/{want}")
            res.error = "StopIteration"
            res.error_index = idx
            break
        except Exception as e:
            ex.ck("C01", "library_guard", False,
                  f"next() raised {type(e).__name__}: {e} after {idx} "
                  "actions on a valid configuration", None,
                  exc=type(e).__name__, index=idx, passes=ex.passes)
            ex.ck("C02", "stream_complete", False,
                  f"next() raised {type(e).__name__}: {e} after {idx} "
                  f"actions: phase={ex.phase}, r={ex.r}, "
                  f"passes={ex.passes}/{want}", None,
                  exc=type(e).__name__)
            res.error = e
            res.error_index = idx
            break
        idx += 1
        if record:
            actions.append(act_tuple(a))
        if isinstance(a, Forward) and not ex.finalized:
            try:
                told = int(a.n1)
            except Exception:
                pass
        need_fin = ex.step(a)
        if need_fin and late_left > 0:
            # late finalisation: ask for further actions first
            late_left -= 1
            need_fin = False
        if need_fin:
            if finalize_mode == "eager":
                try:
                    s.finalize(n_fin)
                    ex.finalize_done(True)
                except Exception as e:
                    ex.ck("C10", "eager_finalize_accepted", False,
                          f"finalize({n_true}) raised {e!r} right after "
                          f"{act_str(a)}", a)
                    res.error = e
                    res.error_index = idx
                    break
        if refinalize and ex.finalized and not need_fin:
            # the idiom of the repository's own test driver: tell the
            # schedule the step count again whenever it reports that the
            # forward stands at the end (a legal no-op)
            try:
                if s.n == n_true:
                    s.finalize(n_fin)
                    ex.evals["C10.redundant_finalize_calls"] += 1
            except Exception as e:
                ex.ck("C10", "redundant_finalize_is_noop", False,
                      f"finalize({n_true}) with n == max_n == {n_true} "
                      f"raised {e!r} after {act_str(a)}", a)
        ex.after(a, s)
        is_final = False
        if isinstance(a, EndReverse):
            res.pass_slices.append((pass_start, idx))
            pass_start = idx
            if protocol == "for":
                _leave_loop(it, s)
                it = None
            if ex.passes >= want:
                done = True
            if pa is not None and ex.passes >= pa:
                is_final = True
        elif isinstance(a, EndForward) and pa == 0:
            done = True
            is_final = True
            res.pass_slices.append((pass_start, idx))
        if is_final:
            final_emitted = True
        if observe:
            read_flags(is_final, True, f"after action #{idx - 1}", a)
            if observe == "full" and rng.random() < 0.25:
                sample_storage(f"after action #{idx - 1}")
                _ = (s.n, s.r, s.max_n)
    else:
        res.completed = True

    if res.completed:
        if observe:
            sample_storage("after the last action")
        if final_emitted:
            # nothing but StopIteration may follow, repeatedly
            for k in range(extra_next):
                try:
                    b = next(s)
                    ex.ck("C02", "stop_iteration_after_end", False,
                          f"next() #{k + 1} after the final action returned "
                          f"{act_str(b)}", b)
                    ex.ck("C09", "stop_iteration_after_end", False,
                          f"next() #{k + 1} after the final action returned "
                          f"{act_str(b)}", b)
                    break
                except StopIteration:
                    ex.evals["C02.stop_iteration_after_end"] += 1
                    ex.evals["C09.stop_iteration_after_end"] += 1
                except Exception as e:
                    ex.ck("C09", "stop_iteration_after_end", False,
                          f"next() #{k + 1} after the final action raised "
                          f"{e!r} instead of StopIteration")
                    ex.ck("C02", "stop_iteration_after_end", False,
                          f"next() #{k + 1} after the final action raised "
                          f"{e!r} instead of StopIteration")
                    break
                if observe:
                    read_flags(True, True, f"after StopIteration #{k + 1}")
        # C08 once more after the stream has ended (and after StopIteration)
        if observe:
            ex.after(None, s)
        # C11: no under-reporting
        if observe:
            for st in (RAM, DISK):
                if st in ex.touched:
                    ex.ck("C11", "no_under_report",
                          answers[st.name] == {True},
                          f"stream touches {st.name} but uses_storage_type "
                          f"answered {sorted(answers[st.name])}", None,
                          storage=st.name)
    res.actions = actions
    return res


class Stepper:
    """One schedule advanced one action at a time (eager finalisation);
    used for interleaved / threaded histories and fresh-process baselines."""

    def __init__(self, cfg, passes=2, protocol="next"):
        self.protocol = protocol
        self._it = None
        self.cfg = cfg
        self.n = cfg["n"]
        self.s, self.stdout = build_captured(cfg)
        pa = PASSES[cfg["cls"]]
        self.want = passes if pa is None else pa
        self.online = cfg["cls"] in ("SingleMemory", "SingleDiskCopy",
                                     "SingleDiskMove", "None", "TwoLevel")
        self.finalized = not self.online
        self.stream = []
        self.passes = 0
        self.done = False
        self.error = None
        self.cap = 40 * max(self.n, 1) * max(self.want, 1) + 200

    def step(self):
        if self.done:
            return None
        try:
            if self.protocol == "for":
                if self._it is None:
                    self._it = iter(self.s)
                a = next(self._it)
            else:
                a = next(self.s)
        except StopIteration:
            self.done = True
            self.stream.append(("StopIteration",))
            return None
        except Exception as e:
            self.done = True
            self.error = e
            self.stream.append(("raised", type(e).__name__))
            return None
        self.stream.append(act_tuple(a))
        if isinstance(a, Forward) and not self.finalized:
            if a.n1 >= self.n:
                try:
                    self.s.finalize(self.n)
                except Exception as e:
                    self.stream.append(("finalize raised",
                                        type(e).__name__))
                self.finalized = True
        if isinstance(a, EndReverse):
            self.passes += 1
            if self.protocol == "for":
                _leave_loop(self._it, self.s)
                self._it = None
            if self.passes >= self.want:
                self.done = True
        elif isinstance(a, EndForward) and self.want == 0:
            self.done = True
        if len(self.stream) >= self.cap:
            self.done = True
            self.stream.append(("cap reached",))
        return a

    def run(self):
        while not self.done:
            self.step()
        return self.stream


def safe_stepper(cfg, passes=2, protocol="next"):
    """Stepper whose construction failure is part of the observable stream
    (a library that cannot build the schedule still has to behave the same
    in a fresh interpreter and in a polluted one)."""
    try:
        return Stepper(cfg, passes, protocol)
    except Exception as e:
        st = Stepper.__new__(Stepper)
        st.cfg = cfg
        st.s = None
        st.done = True
        st.error = e
        st.stream = [("construct raised", type(e).__name__)]
        st.passes = 0
        st.want = 0
        st.protocol = protocol
        st._it = None
        return st
