"""pytest plugin: runs the repository's own test-suite under the contract
layer (guarded by CHECKPOINT_SCHEDULES_VERIF=1).  Every process (xdist
worker or the controller) appends its contract evaluations and recorded
contract violations to $VF_CONTRACT_LOG as one JSON line at session end.

    CHECKPOINT_SCHEDULES_VERIF=1 VF_CONTRACT_LOG=/path/log.jsonl \
      python -m pytest -p vf.pytest_contracts -n 16 /repo/tests
"""
import json
import os


def pytest_configure(config):
    if os.environ.get("CHECKPOINT_SCHEDULES_VERIF") != "1":
        return
    from vf import contracts
    contracts.install()


def pytest_sessionfinish(session, exitstatus):
    if os.environ.get("CHECKPOINT_SCHEDULES_VERIF") != "1":
        return
    path = os.environ.get("VF_CONTRACT_LOG")
    if not path:
        return
    from vf import contracts
    rec = {"pid": os.getpid(), "evals": dict(contracts.EVALS),
           "violations": contracts.drain()}
    with open(path, "a") as f:
        f.write(json.dumps(rec, default=str) + "\n")
