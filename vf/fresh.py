"""Fresh-interpreter baseline: prints the stream of one configuration as
JSON.  Imports nothing but the library and the plain driver (no contracts,
no monitoring)."""
import json
import sys


def main():
    cfg = json.loads(sys.argv[1])
    passes = int(sys.argv[2]) if len(sys.argv) > 2 else 2
    from vf.drivers import safe_stepper
    st = safe_stepper(cfg, passes)
    print("\n@@STREAM@@" + json.dumps(st.run()))


if __name__ == "__main__":
    main()
