"""Reference executor: a literal solver model that carries out the action
stream and keeps the state the library never stores (DESIGN.md 2.1).

It never raises; violations are appended to ``self.violations`` as dicts
``{"prop", "rule", "i", "action", "msg", "detail"}``.  Every rule evaluation
is counted in ``self.evals`` so that a check can refuse to say "held" when a
deciding rule was never reached.
"""
import sys
from collections import Counter

from .common import (Forward, Reverse, Copy, Move, EndForward, EndReverse,
                     StorageType, RAM, DISK, WORK, NONE, PASSES, act_str)

INF = float("inf")
MAX_VIOLATIONS_PER_RULE = 3


def _is_int(x):
    if isinstance(x, bool):
        return False
    try:
        x.__index__()
        return True
    except Exception:
        return False


def _is_bool(x):
    return isinstance(x, bool) or type(x).__name__ in ("bool_", "bool")


def budgets_for(cfg):
    """Static (RAM, DISK) budgets for a configuration; TwoLevel's DISK budget
    is dynamic (one checkpoint per started period) and handled in Executor."""
    c = cfg["cls"]
    if c in ("SingleMemory", "None"):
        return 0, 0
    if c in ("SingleDiskCopy", "SingleDiskMove"):
        return 0, INF
    if c == "Revolve":
        return cfg["ram"], 0
    if c in ("DiskRevolve", "PeriodicDiskRevolve"):
        return cfg["ram"], INF
    if c in ("HRevolve", "Multistage"):
        return cfg["ram"], cfg["disk"]
    if c == "Mixed":
        if cfg.get("storage", "DISK") == "RAM":
            return cfg["s"], 0
        return 0, cfg["s"]
    if c == "TwoLevel":
        if cfg.get("storage", "DISK") == "RAM":
            return cfg["bs"], 0          # + started periods on DISK
        return 0, cfg["bs"]              # + started periods on DISK
    raise KeyError(c)


class Executor:
    def __init__(self, cfg, n_true, sched=None, record=False):
        self.cfg = cfg
        self.cls = cfg["cls"]
        self.n_true = n_true
        self.online = self.cls in ("SingleMemory", "SingleDiskCopy",
                                   "SingleDiskMove", "None", "TwoLevel")
        self.finalized = not self.online
        self.single_memory = self.cls == "SingleMemory"
        self.passes_allowed = PASSES[self.cls]
        self.fwd = 0                # where the forward state in WORK stands
        self.work_ics = None        # (lo, hi) loaded, unused restart data
        self.work_deps = None       # (lo, hi) interval of adjoint deps in WORK
        self.store = {RAM: {}, DISK: {}}   # step -> [kind, lo, hi, last_access]
        self.r = 0
        self.phase = "forward"      # forward | reverse | done
        self.end_forward_seen = 0
        self.passes = 0
        self.store_at_end_forward = None
        self.rev_done_idle = False  # r reached n_true, waiting for EndReverse
        self.i = -1
        self.violations = []
        self._vcount = Counter()
        self.evals = Counter()
        self.base_ram, self.base_disk = budgets_for(cfg)
        self.started_periods = 0
        # counters
        self.fwd_steps = 0          # total forward steps (effective lengths)
        self.fwd_steps_pass = [0]   # per adjoint pass (index 0 includes sweep)
        self.rev_steps = 0
        self.writes = {RAM: 0, DISK: 0}
        self.loads = {RAM: 0, DISK: 0}
        self.deletes = {RAM: 0, DISK: 0}
        self.peak = {RAM: 0, DISK: 0}
        self.touched = set()        # storages written to / copied from or to
        self.load_count = Counter()  # (storage, step, write_index) -> loads
        self.write_index = 0
        self.disk_writes_sweep = []  # steps written to DISK before EndForward
        self.disk_writes_after = []  # ... after EndForward
        self.n_actions = 0
        self.kinds = Counter()
        self.record = record
        self.log = [] if record else None
        self.lib_error = None

    # ------------------------------------------------------------------
    def viol(self, prop, rule, msg, action=None, **detail):
        key = (prop, rule)
        self._vcount[key] += 1
        if self._vcount[key] > MAX_VIOLATIONS_PER_RULE:
            return
        self.violations.append({
            "prop": prop, "rule": rule, "i": self.i, "pass": self.passes,
            "action": act_str(action) if action is not None else None,
            "msg": msg, "detail": detail})

    def ck(self, prop, rule, cond, msg, action=None, **detail):
        self.evals[prop + "." + rule] += 1
        if not cond:
            self.viol(prop, rule, msg, action, **detail)
        return cond

    @property
    def p(self):
        """adjoint position: the step boundary the adjoint stands at"""
        return self.n_true - self.r

    def budgets(self):
        if self.cls == "TwoLevel":
            return self.base_ram, self.base_disk + self.started_periods
        return self.base_ram, self.base_disk

    # ------------------------------------------------------------------
    def step(self, a, sched=None):
        """Apply one action.  Returns True if the driver must now finalize
        the schedule (forward reached n_true and schedule not yet told)."""
        self.i += 1
        self.n_actions += 1
        self.kinds[type(a).__name__] += 1
        need_finalize = False
        if isinstance(a, Forward):
            need_finalize = self._forward(a)
        elif isinstance(a, Reverse):
            self._reverse(a)
        elif isinstance(a, Move):
            self._transfer(a, True)
        elif isinstance(a, Copy):
            self._transfer(a, False)
        elif isinstance(a, EndForward):
            self._end_forward(a)
        elif isinstance(a, EndReverse):
            self._end_reverse(a)
        else:
            self.ck("C18", "known_action", False,
                    f"unknown action type {type(a).__name__}", a)
        return need_finalize

    def after(self, a, sched):
        """Observations after the action (and after an eager finalize)."""
        # C12: WORK holds dependency data of at most one step
        if not self.single_memory:
            wd = self.work_deps
            self.ck("C12", "work_deps_at_most_one",
                    wd is None or wd[1] - wd[0] <= 1,
                    f"WORK holds adjoint dependencies of steps {wd}", a)
        # C03 budgets
        bram, bdisk = self.budgets()
        nram, ndisk = len(self.store[RAM]), len(self.store[DISK])
        if nram > self.peak[RAM]:
            self.peak[RAM] = nram
        if ndisk > self.peak[DISK]:
            self.peak[DISK] = ndisk
        self.ck("C03", "ram_budget", nram <= bram,
                f"{nram} checkpoints in RAM, budget {bram}", a,
                held=sorted(self.store[RAM]), storage="RAM",
                last_access={str(k): v[3] for k, v in self.store[RAM].items()})
        self.ck("C03", "disk_budget", ndisk <= bdisk,
                f"{ndisk} checkpoints on DISK, budget {bdisk}", a,
                held=sorted(self.store[DISK]), storage="DISK",
                last_access={str(k): v[3]
                             for k, v in self.store[DISK].items()})
        # C08
        if sched is not None:
            try:
                sn, sr, smax = sched.n, sched.r, sched.max_n
            except Exception as e:
                self.ck("C08", "readable", False,
                        f"reading n/r/max_n raised {e!r}", a)
                return
            # (while an online schedule has been asked to advance to or
            # beyond the true end but has not been told so yet, `n` is where
            # it asked the forward to go; finalize() corrects it)
            if self.fwd is not None and (self.finalized
                                         or self.fwd < self.n_true):
                self.ck("C08", "n_matches_forward", sn == self.fwd,
                        f"schedule.n={sn} but forward state stands at "
                        f"{self.fwd}", a)
            self.ck("C08", "r_matches_reversed", sr == self.r,
                    f"schedule.r={sr} but {self.r} steps reversed "
                    f"(phase={self.phase}, passes={self.passes})", a,
                    phase=self.phase, at_end_reverse=isinstance(a, EndReverse))
            if self.finalized:
                self.ck("C08", "max_n_true", smax == self.n_true,
                        f"schedule.max_n={smax}, true n={self.n_true}", a)
            else:
                self.ck("C08", "max_n_unknown", smax is None,
                        f"schedule.max_n={smax} before finalisation", a)

    # ------------------------------------------------------------------
    def _forward(self, a):
        args = a.args
        ok = (len(args) == 5 and _is_int(args[0]) and _is_int(args[1])
              and _is_bool(args[2]) and _is_bool(args[3])
              and isinstance(args[4], StorageType))
        self.ck("C18", "forward_types", ok,
                "Forward fields must be (int, int, bool, bool, StorageType)",
                a)
        if not ok:
            return False
        n0, n1, wi, wa, st = args
        n0, n1 = n0.__index__(), n1.__index__()
        wi, wa = bool(wi), bool(wa)
        self.ck("C18", "forward_range", 0 <= n0 < n1,
                f"Forward needs 0 <= n0 < n1, got {n0}, {n1}", a)
        if st in (RAM, DISK):
            self.ck("C18", "forward_storage_written", wi or wa,
                    "Forward names RAM/DISK but writes nothing", a)
        elif st == NONE:
            self.ck("C18", "forward_none_nothing", not wi and not wa,
                    "Forward names NONE but has a write flag set", a)
        # A pre-finalisation Forward requested after the forward has already
        # reached its true end (the driver finalises late): the solver has no
        # step left to execute, so nothing is advanced and nothing is stored.
        if (not self.finalized and self.phase == "forward"
                and self.fwd is not None and self.fwd >= self.n_true):
            self.evals["late.forward_beyond_end_skipped"] += 1
            self.ck("C02", "sweep_contiguous", n0 >= self.n_true,
                    f"pre-finalisation Forward starts at {n0} although the "
                    f"forward was already told to advance to {self.n_true}"
                    " or beyond", a)
            if self.record:
                self.log.append(("F-skipped", n0, n1))
            return True
        # phase structure
        if self.phase == "forward":
            self.ck("C02", "sweep_contiguous",
                    self.fwd is not None and n0 == self.fwd,
                    f"initial sweep: Forward starts at {n0}, forward stands "
                    f"at {self.fwd}", a)
            self.ck("C02", "no_forward_after_sweep_end",
                    self.fwd is None or self.fwd < self.n_true,
                    "Forward emitted although the forward already reached "
                    f"n={self.n_true} (EndForward expected)", a)
        elif self.phase == "reverse":
            self.ck("C02", "no_work_after_last_reverse",
                    not self.rev_done_idle,
                    "Forward after step 0 was reversed, before EndReverse", a)
        else:
            self.ck("C02", "nothing_after_end", False,
                    "Forward after the last permitted EndReverse", a)
        # C01 start position
        self.ck("C01", "forward_start",
                self.fwd is not None and n0 == self.fwd,
                f"Forward starts at {n0} but forward state stands at "
                f"{self.fwd}", a)
        # overshoot
        if self.finalized:
            self.ck("C12", "no_overshoot", n1 <= self.p,
                    f"Forward to {n1} beyond adjoint position {self.p}", a)
            n1eff = n1
        else:
            n1eff = min(n1, self.n_true)
            if self.cls == "TwoLevel":
                self.started_periods += 1
        if n1eff <= n0:
            n1eff = n1   # malformed; already reported
        length = n1eff - n0
        # WORK is replaced
        self.work_ics = None
        self.work_deps = None
        if st in (RAM, DISK):
            self.touched.add(st)
            self.ck("C01", "no_overwrite", n0 not in self.store[st],
                    f"Forward writes ({st.name},{n0}) which already holds a "
                    "checkpoint", a)
            self.ck("C03", "kind_exclusive", not (wi and wa),
                    "checkpoint written with restart data AND adjoint "
                    "dependencies", a)
            if wa:
                self.ck("C03", "deps_one_step", n1 - n0 == 1,
                        f"dependency checkpoint spans {n1 - n0} steps", a)
            kind = "both" if (wi and wa) else ("ics" if wi else
                                               ("deps" if wa else "empty"))
            self.write_index += 1
            self.store[st][n0] = [kind, n0, n1eff, "write", self.write_index]
            self.writes[st] += 1
            if st == DISK:
                (self.disk_writes_sweep if self.phase == "forward"
                 else self.disk_writes_after).append(n0)
        elif st == WORK:
            if wa:
                self.work_deps = (n0, n1eff)
                if not self.single_memory:
                    self.ck("C12", "work_deps_single_adjacent",
                            n1 - n0 == 1 and
                            (not self.finalized or n1 == self.p),
                            f"adjoint dependencies to WORK for [{n0},{n1}) "
                            f"but adjoint position is {self.p}", a)
            if wi:
                self.work_ics = (n0, n1eff)
        self.fwd = n1eff
        self.fwd_steps += length
        self.fwd_steps_pass[-1] += length
        if self.record:
            self.log.append(("F", n0, n1eff, wi, wa, st.name, self.phase,
                             self.passes))
        return (not self.finalized) and n1eff >= self.n_true

    def finalize_done(self, ok):
        if ok:
            self.finalized = True

    def _reverse(self, a):
        args = a.args
        ok = (len(args) == 3 and _is_int(args[0]) and _is_int(args[1])
              and _is_bool(args[2]))
        self.ck("C18", "reverse_types", ok,
                "Reverse fields must be (int, int, bool)", a)
        if not ok:
            return
        n1, n0, clear = args[0].__index__(), args[1].__index__(), bool(args[2])
        self.ck("C18", "reverse_range", n1 > n0 >= 0,
                f"Reverse needs n1 > n0 >= 0, got n1={n1}, n0={n0}", a)
        if self.phase != "reverse":
            if self.phase == "forward":
                self.ck("C02", "only_forward_before_end_forward", False,
                        "Reverse before EndForward", a)
            else:
                self.ck("C02", "nothing_after_end", False,
                        "Reverse after the last permitted EndReverse", a)
        else:
            self.evals["C02.only_forward_before_end_forward"] += 1
        self.ck("C02", "reverse_from_adjoint_position", n1 == self.p,
                f"Reverse starts at {n1}, adjoint position is {self.p}", a)
        self.ck("C02", "no_work_after_last_reverse", not self.rev_done_idle,
                "Reverse after step 0 was reversed, before EndReverse", a)
        wd = self.work_deps
        self.ck("C01", "reverse_has_deps",
                wd is not None and wd[0] <= n0 and n1 <= wd[1],
                f"Reverse over [{n0},{n1}) but WORK holds dependencies of "
                f"{wd}", a, passes=self.passes)
        if n1 > n0:
            self.r += n1 - n0
            self.rev_steps += n1 - n0
        if clear:
            self.work_deps = None
        if self.r >= self.n_true:
            self.rev_done_idle = True
        if self.record:
            self.log.append(("R", n1, n0, clear, self.passes))

    def _transfer(self, a, is_move):
        args = a.args
        ok = (len(args) == 3 and _is_int(args[0])
              and isinstance(args[1], StorageType)
              and isinstance(args[2], StorageType))
        name = "Move" if is_move else "Copy"
        self.ck("C18", "transfer_types", ok,
                f"{name} fields must be (int, StorageType, StorageType)", a)
        if not ok:
            return
        n, src, dst = args[0].__index__(), args[1], args[2]
        self.ck("C18", "transfer_source", src in (RAM, DISK) and n >= 0,
                f"{name} source must be RAM or DISK and step >= 0", a)
        if self.phase == "forward":
            self.ck("C02", "only_forward_before_end_forward", False,
                    f"{name} before EndForward", a)
        elif self.phase == "done":
            self.ck("C02", "nothing_after_end", False,
                    f"{name} after the last permitted EndReverse", a)
        else:
            self.evals["C02.only_forward_before_end_forward"] += 1
        if src not in (RAM, DISK):
            return
        self.touched.add(src)
        if dst in (RAM, DISK):
            self.touched.add(dst)
        rec = self.store[src].get(n)
        if not self.ck("C01", "checkpoint_exists", rec is not None,
                       f"{name} of step {n} from {src.name}: no such "
                       f"checkpoint (held: {sorted(self.store[src])[:12]})",
                       a):
            return
        kind, lo, hi = rec[0], rec[1], rec[2]
        if dst == WORK:
            self.loads[src] += 1
            self.load_count[(src.name, n, rec[4])] += 1
            self.ck("C12", "load_into_empty_work",
                    self.work_ics is None and self.work_deps is None,
                    f"{name} to WORK while WORK holds restart data "
                    f"{self.work_ics} / dependencies {self.work_deps}", a)
            p = self.p
            self.ck("C01", "checkpoint_before_adjoint", lo < p,
                    f"checkpoint of step {lo} loaded at adjoint position {p}",
                    a)
            if kind in ("ics", "both"):
                self.ck("C01", "restart_covers_recompute", hi >= p,
                        f"restart checkpoint covers [{lo},{hi}) but steps up "
                        f"to {p} remain to be recomputed", a)
                self.fwd = n
                self.work_ics = (lo, hi)
            else:
                self.fwd = None
            if kind in ("deps", "both"):
                self.work_deps = (lo, hi)
        elif dst in (RAM, DISK):
            self.ck("C01", "no_overwrite", n not in self.store[dst],
                    f"{name} writes ({dst.name},{n}) which already holds a "
                    "checkpoint", a)
            self.write_index += 1
            self.store[dst][n] = [kind, lo, hi, "write", self.write_index]
            self.writes[dst] += 1
            if dst == DISK:
                self.disk_writes_after.append(n)
        if is_move:
            del self.store[src][n]
            self.deletes[src] += 1
        else:
            rec[3] = "Copy"
        if self.record:
            self.log.append(("M" if is_move else "C", n, src.name,
                             dst.name if isinstance(dst, StorageType)
                             else None, self.passes))

    def _end_forward(self, a):
        self.ck("C18", "end_types", len(a.args) == 0, "EndForward has args", a)
        self.end_forward_seen += 1
        self.ck("C02", "end_forward_once",
                self.end_forward_seen == 1 and self.phase == "forward",
                f"EndForward #{self.end_forward_seen} in phase {self.phase}",
                a)
        self.ck("C02", "end_forward_at_n", self.fwd == self.n_true,
                f"EndForward with forward at {self.fwd}, n={self.n_true}", a)
        self.ck("C02", "end_forward_finalized", self.finalized,
                "EndForward before the schedule was told the step count", a)
        if self.phase == "forward":
            self.phase = "reverse" if self.passes_allowed != 0 else "done"
        self.store_at_end_forward = self._store_digest()
        if self.record:
            self.log.append(("EF",))

    def _store_digest(self):
        return frozenset((st.name, n, rec[0], rec[1], rec[2])
                         for st in (RAM, DISK)
                         for n, rec in self.store[st].items())

    def _end_reverse(self, a):
        self.ck("C18", "end_types", len(a.args) == 0, "EndReverse has args", a)
        if self.phase == "forward":
            self.ck("C02", "only_forward_before_end_forward", False,
                    "EndReverse before EndForward", a)
        elif self.phase == "done":
            self.ck("C02", "nothing_after_end", False,
                    "EndReverse after the last permitted EndReverse", a)
        self.ck("C02", "end_reverse_when_all_reversed", self.r == self.n_true,
                f"EndReverse with {self.r} of {self.n_true} steps reversed",
                a)
        self.passes += 1
        # C04
        now = self._store_digest()
        if self.passes_allowed is None:
            ref = self.store_at_end_forward or frozenset()
            extra = sorted(now - ref)
            missing = sorted(ref - now)
            self.ck("C04", "store_equals_end_forward",
                    not extra and not missing,
                    f"storage at EndReverse differs from EndForward: "
                    f"extra={extra[:6]} missing={missing[:6]}", a,
                    passes=self.passes)
        else:
            left = [(st.name, n, rec[0], rec[3])
                    for st in (RAM, DISK)
                    for n, rec in sorted(self.store[st].items())]
            self.ck("C04", "store_empty_at_end", not left,
                    f"checkpoints left at EndReverse: {left[:8]}", a,
                    leftover=[list(x) for x in left[:20]])
        more = (self.passes_allowed is None
                or self.passes < self.passes_allowed)
        if more:
            self.r = 0
            self.rev_done_idle = False
            self.fwd_steps_pass.append(0)
        else:
            self.phase = "done"
        if self.record:
            self.log.append(("ER",))

    # ------------------------------------------------------------------
    def summary(self):
        return {
            "actions": self.n_actions,
            "fwd_steps": self.fwd_steps,
            "fwd_steps_pass": list(self.fwd_steps_pass),
            "rev_steps": self.rev_steps,
            "writes": {k.name: v for k, v in self.writes.items()},
            "loads": {k.name: v for k, v in self.loads.items()},
            "peak": {k.name: v for k, v in self.peak.items()},
            "passes": self.passes,
            "touched": sorted(s.name for s in self.touched),
        }
