"""sys.monitoring based instrumentation (Python 3.12): reach probes, yield
injection (thread interleaving stress) and source-free failpoints."""
import sys
import threading
import time
import types

TOOL = 3
_mon = sys.monitoring


def lib_modules():
    import importlib
    names = ["checkpoint_schedules.schedule",
             "checkpoint_schedules.basic_schedules",
             "checkpoint_schedules.multistage",
             "checkpoint_schedules.twolevel_binomial",
             "checkpoint_schedules.mixed",
             "checkpoint_schedules.hrevolve",
             "checkpoint_schedules.hrevolve_sequences.basic_functions",
             "checkpoint_schedules.hrevolve_sequences.revolve",
             "checkpoint_schedules.hrevolve_sequences.disk_revolve",
             "checkpoint_schedules.hrevolve_sequences.periodic_disk_revolve",
             "checkpoint_schedules.hrevolve_sequences.hrevolve",
             "checkpoint_schedules.hrevolve_sequences.utils"]
    return [importlib.import_module(n) for n in names]


def _walk_code(co, out):
    if co in out:
        return
    out.add(co)
    for c in co.co_consts:
        if isinstance(c, types.CodeType):
            _walk_code(c, out)


def code_objects(modules=None, name_filter=None):
    """All code objects (functions, methods, nested functions, generators)
    defined in the library's modules."""
    out = set()
    for m in (modules or lib_modules()):
        fn = getattr(m, "__file__", None)
        for obj in list(vars(m).values()):
            cands = []
            if isinstance(obj, types.FunctionType):
                cands.append(obj)
            elif isinstance(obj, type):
                for v in vars(obj).values():
                    if isinstance(v, types.FunctionType):
                        cands.append(v)
                    elif isinstance(v, property) and v.fget:
                        cands.append(v.fget)
            for f in cands:
                seen = set()
                while f is not None and id(f) not in seen:
                    seen.add(id(f))
                    co = getattr(f, "__code__", None)
                    if co is not None and co.co_filename == fn:
                        _walk_code(co, out)
                    f = getattr(f, "__wrapped__", None)
    if name_filter:
        out = {c for c in out if name_filter(c)}
    return out


class _Base:
    active = None

    def _acquire(self):
        if _Base.active is not None:
            raise RuntimeError("a monitoring tool is already active")
        _mon.use_tool_id(TOOL, "vf")
        _Base.active = self

    def _release(self):
        for co in self.codes:
            try:
                _mon.set_local_events(TOOL, co, 0)
            except Exception:
                pass
        _mon.register_callback(TOOL, _mon.events.LINE, None)
        _mon.free_tool_id(TOOL)
        _Base.active = None


class YieldInjector(_Base):
    """time.sleep(0) on a seeded fraction of LINE events inside the given
    code objects: forces GIL hand-offs between the statements of the
    library's check-then-act sequences."""

    def __init__(self, codes, rng, prob=0.2, max_events=40000):
        self.codes = list(codes)
        self.rng = rng
        self.prob = prob
        self.max_events = max_events
        self.events = 0
        self.yields = 0
        self.switches = 0
        self._last_tid = None
        self._lock = threading.Lock()

    def _cb(self, code, line):
        if self.events >= self.max_events:
            return _mon.DISABLE
        tid = threading.get_ident()
        with self._lock:
            self.events += 1
            if self._last_tid is not None and tid != self._last_tid:
                self.switches += 1
            self._last_tid = tid
            do = self.rng.random() < self.prob
            if do:
                self.yields += 1
        if do:
            time.sleep(0)

    def __enter__(self):
        self._acquire()
        _mon.register_callback(TOOL, _mon.events.LINE, self._cb)
        for co in self.codes:
            _mon.set_local_events(TOOL, co, _mon.events.LINE)
        return self

    def __exit__(self, *a):
        self._release()
        _mon.restart_events()


class Injected(Exception):
    """private exception raised by the failpoint"""


class FaultInjector(_Base):
    """Raises Injected at the k-th LINE event inside the given code objects
    (a source-free failpoint)."""

    def __init__(self, codes, k):
        self.codes = list(codes)
        self.k = k
        self.events = 0
        self.fired = False
        self.where = None

    def _cb(self, code, line):
        self.events += 1
        if not self.fired and self.events >= self.k:
            self.fired = True
            self.where = (code.co_name, line)
            raise Injected(f"failpoint at {code.co_name}:{line}")

    def __enter__(self):
        self._acquire()
        _mon.register_callback(TOOL, _mon.events.LINE, self._cb)
        for co in self.codes:
            _mon.set_local_events(TOOL, co, _mon.events.LINE)
        return self

    def __exit__(self, *a):
        self._release()


class ReachProbe(_Base):
    """Records which lines of the given code objects were executed at least
    once (DISABLE after the first hit of each line: negligible cost)."""

    def __init__(self, codes):
        self.codes = list(codes)
        self.hits = set()

    def _cb(self, code, line):
        self.hits.add((code.co_filename, code.co_name, line))
        return _mon.DISABLE

    def __enter__(self):
        self._acquire()
        _mon.register_callback(TOOL, _mon.events.LINE, self._cb)
        for co in self.codes:
            _mon.set_local_events(TOOL, co, _mon.events.LINE)
        return self

    def __exit__(self, *a):
        self._release()
        _mon.restart_events()
