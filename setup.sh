#!/bin/sh
# Offline setup: put icontract (+deal) beside the repository's interpreter in
# /verif/.deps (ignored by git, so rebuilt after every fresh restore).
set -e
cd "$(dirname "$0")"
if [ ! -f .deps/icontract/__init__.py ]; then
  (
    flock 9
    if [ ! -f .deps/icontract/__init__.py ]; then
      rm -rf .deps.tmp
      PIP_NO_INDEX=1 /venv/bin/pip install -q --no-index \
        --find-links /opt/veriftools/wheels --target .deps.tmp \
        icontract deal >/dev/null 2>&1 || \
      PIP_NO_INDEX=1 /venv/bin/pip install -q --no-index \
        --find-links /opt/veriftools/wheels --target .deps.tmp icontract
      rm -rf .deps && mv .deps.tmp .deps
    fi
  ) 9>.deps.lock
fi
PYTHONPATH=/verif/.deps /venv/bin/python -B -c "import icontract; print('icontract', icontract.__version__)"
