#!/bin/bash
# Runs every patch in mutants/ (or those given) through tools/mutant_run.sh
# and prints the detection matrix.  Usage: tools/selftest_mutants.sh [--tests] [patches...]
ROOT="$(cd "$(dirname "$0")/.." && pwd)"
T=""; [ "${1:-}" = "--tests" ] && { T="--tests"; shift; }
L=("$@"); [ ${#L[@]} -eq 0 ] && L=("$ROOT"/mutants/*.patch)
for m in "${L[@]}"; do
  "$ROOT/tools/mutant_run.sh" "$m" $T | grep -E "^(MUTANT|TESTS|PATCH)"
done
