#!/bin/bash
# tools/seeded_verify.sh <seed-id> [props...]   (expects /verif/seeded/<seed-id>/{patch.diff,demo.py,meta.json})
# Confirms in a scratch copy of /repo's HEAD (under /tmp, removed afterwards):
#   demo passes on the original, fails with the change, the repository's tests pass with the change;
# then runs the named checks (default: all) against the changed copy.
ROOT="$(cd "$(dirname "$0")/.." && pwd)"
ID="$1"; shift
D="$ROOT/seeded/$ID"
W="$(mktemp -d /tmp/seedchk-XXXXXX)"
trap 'rm -rf "$W"' EXIT
mkdir -p "$W/orig" "$W/chg"
(cd /repo && git archive HEAD) | tar -x -C "$W/orig"
(cd /repo && git archive HEAD) | tar -x -C "$W/chg"
(cd "$W/chg" && git apply --whitespace=nowarn "$D/patch.diff") || { echo "SEED $ID: patch does not apply"; exit 3; }
(cd "$W" && PYTHONPATH="$W/orig" timeout 300 /venv/bin/python -B "$D/demo.py" >"$W/demo_orig.log" 2>&1); r0=$?
(cd "$W" && PYTHONPATH="$W/chg" timeout 300 /venv/bin/python -B "$D/demo.py" >"$W/demo_chg.log" 2>&1); r1=$?
echo "SEED $ID: demo on original rc=$r0, with change rc=$r1 ($(tail -1 "$W/demo_chg.log" | cut -c1-200))"
"$ROOT/tools/mutant_run.sh" "$D/patch.diff" --tests "$@" | grep -E "^(MUTANT|TESTS|PATCH)" | sed "s/^/SEED $ID: /"
