#!/usr/bin/env python3
"""Regenerates /verif/MANIFEST.json from the table below; properties whose
module does not exist yet are listed under not_applicable with the reason
"check not built yet" so that the manifest is valid at all times."""
import json
import os
import subprocess

ROOT = os.path.dirname(os.path.dirname(os.path.abspath(__file__)))

T = {
 "C01": ("reference-executor trace monitor + contracts on planners",
         "Online reference executor (literal solver model) run over every action of real schedule objects for grids + seeded random configurations of all ten classes, all permitted passes; held on the executions listed in evidence, nothing more.",
         "executor semantics = tests/test_validity.py model; oracle-free", "3 C01"),
 "C02": ("executor phase automaton over recorded action streams",
         "Phase automaton (sweep, EndForward once, Reverse from the adjoint position, EndReverse iff r == n, StopIteration x3) evaluated on every action of every explored stream.",
         "driver finalises online schedules eagerly at the true end", "3 C02"),
 "C03": ("executor occupancy monitor vs declared budgets",
         "Occupancy of RAM and DISK compared with the class budget after every action; checkpoint kind exclusivity checked at each write.",
         "budget table of DESIGN.md C03 (Multistage: declared counts; TwoLevel: binomial units + one DISK checkpoint per started period)", "3 C03"),
 "C04": ("executor store comparison at EndReverse",
         "Executor store must be empty at the EndReverse of single-pass classes and equal to the EndForward snapshot for multi-pass classes, 1..4 passes.",
         "executor semantics", "3 C04"),
 "C05": ("closed-form oracle (validated by exhaustive search) + n_advance contract",
         "Total forward steps of Multistage (all RAM/DISK splits, both trajectories) and Revolve streams and optimal_steps_binomial compared with the Griewank-Walther closed form; local-optimality contract on every n_advance call.",
         "Griewank-Walther closed form, pinned by exhaustive state search for n <= 7..9", "3 C05"),
 "C06": ("recurrence oracle (validated by exhaustive search) + planner contracts",
         "Mixed stream forward totals for both storages compared with an independent bottom-up table; contract on every mixed_step_memoization result.",
         "Maddison (2024) recurrence, pinned by exhaustive state search for small n", "3 C06"),
 "C07": ("exact-arithmetic DP oracles + stream cost accounting + get_hopt_table contract",
         "Cost of every explored HRevolve / DiskRevolve / Revolve stream (uf, ub, wd, rd accounting from the executor) compared with independent exact-arithmetic recurrences; sibling inequalities across classes and disk counts.",
         "Herrmann-Pallez / Aupy et al. recurrences re-implemented in integers, pinned by exhaustive search for n <= 6..8", "3 C07"),
 "C08": ("executor shadow state vs schedule.n/r/max_n + class invariant contract",
         "n, r, max_n read after every action and compared with the executor's shadow state; icontract invariant on CheckpointSchedule.",
         "n is unconstrained while no forward state is defined (after loading a dependency checkpoint)", "3 C08"),
 "C09": ("exhaustion state machine + per-pass log comparison",
         "Permitted pass counts, repeat equality of later passes, is_exhausted / is_running sampled before and after every action and after StopIteration.",
         "unlimited-pass classes are driven for 4 passes only", "3 C09"),
 "C10": ("history checker with twin object + finalize contract",
         "Seeded and exhaustive short histories over {next, finalize(k)} with hostile k; outcome, state and remaining stream compared with a sequential model and a twin object.",
         "integer k only; bounded history length", "3 C10"),
 "C11": ("sampled queries vs storages touched in the executor log",
         "uses_storage_type for all four members sampled before / during / after iteration; never raises; true for every storage the executor saw touched.",
         "over-reporting is allowed", "3 C11"),
 "C12": ("executor WORK-content rules",
         "WORK holds at most one step of dependencies, loads only into empty WORK, dependency taping only for the step before the adjoint position, no Forward beyond the adjoint position.",
         "SingleMemory exempt as stated", "3 C12"),
 "C13": ("per-period-block forward-step counters vs closed form + n_advance contract",
         "Pre-finalisation actions compared literally; per block and pass forward-step counts compared with the binomial optimum for binomial_snapshots+1 units.",
         "Griewank-Walther closed form", "3 C13"),
 "C14": ("offline checker over sibling stream logs",
         "For every (n, trajectory, s) all splits are generated and compared modulo storage labels; stack positions keep one label; DISK accesses compared with the minimum over all allocations.",
         "declared RAM count read as clamped to positions used", "3 C14"),
 "C15": ("differential: fresh-interpreter baseline vs polluted / threaded history",
         "Target streams produced after and during seeded histories (constructions, partial iterations, failed constructions, observer reads, threads with yield injection, aborted planner calls) compared by value with a fresh interpreter; memo caches audited.",
         "bounded history length; thread schedules are whatever the injected yields produced (reported)", "3 C15"),
 "C16": ("table comparison + differential streams with the tabulated branch forced",
         "mixed_steps_tabulation vs mixed_step_memoization entry by entry; Mixed streams with mixed.numba rebound to force the tabulated branch compared by value with the memoised ones.",
         "numba itself is not installed: the tabulated algorithm runs un-jitted (limit recorded in DESIGN.md)", "3 C16"),
 "C17": ("exhaustive boundary box through constructor + first next + executor",
         "Every tuple of a box around the domain boundary: valid tuples must yield a complete executor-clean stream, invalid ones must fail before any action.",
         "the four stated ways of being invalid only; (max_n=1, ram=0) for the Revolve family unspecified", "3 C17"),
 "C18": ("well-formedness rules on emitted actions + algebraic laws on constructed pools",
         "Type / range rules on every emitted action; equality, repr round-trip, len / iteration / membership laws on pools of emitted and constructed actions.",
         "value comparison is (type, args), independent of the __eq__ under test", "3 C18"),
 "C19": ("offline cross-n periodicity checker + closed form + mxrr contract",
         "For each (ram, costs): DISK write positions of the sweep for all n, one read per disk checkpoint, no later DISK writes, forward totals vs closed form; printed period vs Aupy-Herrmann closed form.",
         "'more than m steps remain' in the papers' indexing l = n-1", "3 C19"),
}


def main():
    checks = []
    na = []
    for pid in sorted(T):
        tech, text, note, ref = T[pid]
        if not os.path.exists(os.path.join(ROOT, "vf", "props",
                                           pid.lower() + ".py")):
            na.append({"property_id": pid,
                       "reason": "check not built yet (in progress; will be "
                                 "claimed once the monitor exists)"})
            continue
        checks.append({
            "property_id": pid,
            "quick_cmd": f"./check {pid} --tier quick",
            "thorough_cmd": f"./check {pid} --tier thorough",
            "evidence_file": f"/verif/evidence/{pid}.json",
            "replay_cmd_template": f"./check {pid} --replay {{path}}",
            "engine": "vf",
            "level_claimed": {"category": "exploration", "text": text,
                              "design_ref": "DESIGN.md section " + ref},
            "level_note": note,
            "technique": "runtime monitoring: " + tech,
        })
    man = {
        "version": 1,
        "setup_cmd": "./setup.sh",
        "hooks": {
            "guard": "CHECKPOINT_SCHEDULES_VERIF",
            "enable": "no source hooks are needed: all monitors attach from "
                      "the harness (PYTHONPATH=/repo:/verif:/verif/.deps, "
                      "icontract wrappers, sys.monitoring); ./check exports "
                      "CHECKPOINT_SCHEDULES_VERIF=1 for the contract plugin",
            "baseline_off_cmd": "cd /repo && /venv/bin/python -m pytest -ra "
                                "-q -p no:cacheprovider --timeout=900 "
                                "--continue-on-collection-errors",
            "source_commits": [],
            "add_only": True,
        },
        "engines": [{
            "name": "vf", "path": "/verif/vf",
            "serves_properties": [c["property_id"] for c in checks],
            "kind_free_text": "runtime monitoring: reference executor, "
                              "independent oracles, icontract contracts, "
                              "sys.monitoring reach probes, differential "
                              "histories"}],
        "checks": checks,
        "not_applicable": na,
        "notes": "Repository defects found and repaired are listed in "
                 "known_findings.json (status fixed) and DESIGN.md section 4. "
                 "All stream-driven checks share the driver modes of DESIGN.md "
                 "section 0 (next() vs for/break consumption, paused sibling "
                 "schedules built before or after the observed one, late and "
                 "repeated finalisation, finalize calls that must be rejected, "
                 "bool-like flags, shuffled storage queries); the detection "
                 "matrix for 52 own patches and 142 independently seeded "
                 "changes is in DESIGN.md section 7.",
    }
    with open(os.path.join(ROOT, "MANIFEST.json"), "w") as f:
        json.dump(man, f, indent=1)
        f.write("\n")
    print(len(checks), "checks,", len(na), "not yet claimed")


if __name__ == "__main__":
    main()
