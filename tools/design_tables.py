#!/usr/bin/env python3
"""Prints the markdown detection tables of DESIGN.md section 7 from
mutants/RESULTS.txt (output of tools/selftest_mutants.sh --tests) and
seeded/*/meta.json (written by tools/seeded_matrix.sh)."""
import glob
import json
import os
import re

ROOT = os.path.dirname(os.path.dirname(os.path.abspath(__file__)))


def mutants_table():
    path = os.path.join(ROOT, "mutants", "RESULTS.txt")
    targets = {}
    tp = os.path.join(ROOT, "mutants", "TARGETS.txt")
    if os.path.exists(tp):
        for ln in open(tp):
            a, b = ln.split()
            targets[a] = b
    tests = {}
    rows = []
    for ln in open(path):
        m = re.match(r"TESTS-(PASS|FAIL) (\S+)\.patch: (.*)", ln)
        if m:
            tests[m.group(2)] = (m.group(1), m.group(3).strip())
        m = re.match(r"MUTANT (\S+)\.patch detected_by=\[([^\]]*)\] "
                     r"silent=\[([^\]]*)\] other=\[([^\]]*)\]", ln)
        if m:
            rows.append((m.group(1), m.group(2).split(), m.group(4).split()))
    out = ["| patch | aimed at | repository tests with the patch | checks "
           "reporting a violation |", "|---|---|---|---|"]
    for name, det, other in rows:
        t = tests.get(name, ("?", ""))
        tt = "pass" if t[0] == "PASS" else "FAIL (" + t[1].split(",")[0] + ")"
        out.append(f"| `{name}` | {targets.get(name, 'pre-fix defect')} | "
                   f"{tt} | {', '.join(det) or '— (see text)'}"
                   f"{' ; inconclusive: ' + ', '.join(other) if other else ''}"
                   " |")
    return "\n".join(out)


def seeded_table():
    out = ["| seeded change | property | what it needs to manifest | "
           "repository tests | demo (orig / changed) | checks reporting a "
           "violation |", "|---|---|---|---|---|---|"]
    for d in sorted(glob.glob(os.path.join(ROOT, "seeded", "*"))):
        mp = os.path.join(d, "meta.json")
        if not os.path.exists(mp):
            continue
        m = json.load(open(mp))
        v = m.get("verified_by_verif") or {}
        needs = m.get("needs", "")
        if not isinstance(needs, str):
            needs = json.dumps(needs)
        needs = re.sub(r"\s+", " ", needs)[:230].replace("|", "/")
        det = v.get("checks_reporting_violation") or []
        out.append(
            f"| `seeded/{os.path.basename(d)}` | {m.get('property')} | "
            f"{needs} | {(v.get('repo_tests_with_change') or '?')[:22]} | "
            f"{v.get('demo_rc_original')} / {v.get('demo_rc_changed')} | "
            f"{', '.join(det) or 'NONE'} |")
    return "\n".join(out)


if __name__ == "__main__":
    import sys
    which = sys.argv[1] if len(sys.argv) > 1 else "both"
    if which in ("mutants", "both"):
        print(mutants_table())
        print()
    if which in ("seeded", "both"):
        print(seeded_table())
