#!/bin/bash
# Runs tools/seeded_verify.sh for every directory under seeded/ (or those named) against ALL checks
# and records the outcome in seeded/<id>/verify.txt and in meta.json ("verified_by_verif").
ROOT="$(cd "$(dirname "$0")/.." && pwd)"
L=("$@"); [ ${#L[@]} -eq 0 ] && L=($(ls "$ROOT/seeded"))
for id in "${L[@]}"; do
  "$ROOT/tools/seeded_verify.sh" "$id" > "$ROOT/seeded/$id/verify.txt" 2>&1
  /venv/bin/python - "$ROOT/seeded/$id" <<'PY'
import json, re, sys, os
d = sys.argv[1]
txt = open(os.path.join(d, "verify.txt")).read()
meta = json.load(open(os.path.join(d, "meta.json")))
m = re.search(r"demo on original rc=(\d+), with change rc=(\d+)", txt)
t = re.search(r"TESTS-(PASS|FAIL)[^:]*: (.*)", txt)
det = re.search(r"detected_by=\[([^\]]*)\] silent=\[([^\]]*)\] other=\[([^\]]*)\]", txt)
meta["verified_by_verif"] = {
    "how": "tools/seeded_verify.sh: scratch copies of /repo HEAD under /tmp (removed afterwards); demo.py run on the original and on the changed copy; repository tests (pytest -n 16) on the changed copy; every ./check <id> --tier quick run against the changed copy via VERIF_REPO",
    "demo_rc_original": int(m.group(1)) if m else None,
    "demo_rc_changed": int(m.group(2)) if m else None,
    "repo_tests_with_change": (t.group(1) + ": " + t.group(2)) if t else None,
    "checks_reporting_violation": det.group(1).split() if det else None,
    "checks_silent": det.group(2).split() if det else None,
    "checks_other": det.group(3).split() if det else None,
}
json.dump(meta, open(os.path.join(d, "meta.json"), "w"), indent=1)
print(os.path.basename(d), meta["verified_by_verif"]["checks_reporting_violation"])
PY
done
