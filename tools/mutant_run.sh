#!/bin/bash
# tools/mutant_run.sh <patch> [--tests] [--tier T] [props...]
# Applies <patch> to a scratch copy of /repo under /tmp, runs the named
# checks (default: all) against the copy, prints which of them report a
# VIOLATION, and removes the copy.  Evidence / replays of these runs go to
# the scratch directory, never to /verif/evidence.
set -u
ROOT="$(cd "$(dirname "$0")/.." && pwd)"
PATCH="$(readlink -f "$1")"; shift
TESTS=0; TIER=quick
PROPS=()
while [ $# -gt 0 ]; do
  case "$1" in
    --tests) TESTS=1;;
    --tier) shift; TIER="$1";;
    *) PROPS+=("$1");;
  esac; shift
done
[ ${#PROPS[@]} -eq 0 ] && PROPS=(C01 C02 C03 C04 C05 C06 C07 C08 C09 C10 C11 C12 C13 C14 C15 C16 C17 C18 C19)
W="$(mktemp -d /tmp/mut-XXXXXX)"
trap 'rm -rf "$W"' EXIT
mkdir -p "$W/repo" "$W/out"
(cd /repo && git archive HEAD) | tar -x -C "$W/repo"
if ! (cd "$W/repo" && git apply --whitespace=nowarn "$PATCH" 2>"$W/apply.err" || patch -p1 -s < "$PATCH" 2>>"$W/apply.err"); then
  echo "PATCH-FAILED $(basename "$PATCH"): $(head -3 "$W/apply.err")"; exit 3
fi
name="$(basename "$PATCH")"
if [ $TESTS -eq 1 ]; then
  if (cd "$W/repo" && PYTHONPATH="$W/repo" timeout 1500 /venv/bin/python -B -m pytest -q -p no:cacheprovider -n 16 -x tests >"$W/tests.log" 2>&1); then
    echo "TESTS-PASS $name: $(tail -1 "$W/tests.log")"
  else
    echo "TESTS-FAIL $name: $(grep -E 'passed|failed|error' "$W/tests.log" | tail -1)"
  fi
fi
det=(); miss=(); inc=()
run_one() {
  p="$1"
  VERIF_REPO="$W/repo" VERIF_OUT="$W/out" VERIF_TIER="$TIER" "$ROOT/check" "$p" --tier "$TIER" >"$W/$p.log" 2>&1
  echo "$p $?" >"$W/$p.rc"
}
for p in "${PROPS[@]}"; do run_one "$p" & 
  # at most 4 checks at a time (each uses 16 workers)
  while [ "$(jobs -r | wc -l)" -ge 4 ]; do sleep 0.2; done
done
wait
for p in "${PROPS[@]}"; do
  rc=$(cut -d' ' -f2 "$W/$p.rc")
  if [ "$rc" = "1" ] && grep -q "^VIOLATION property=$p" "$W/$p.log"; then
    det+=("$p"); [ -n "${VERBOSE:-}" ] && grep -A1 -m1 "^VIOLATION" "$W/$p.log" | cut -c1-400
  elif [ "$rc" = "0" ]; then miss+=("$p")
  else inc+=("$p(rc=$rc)"); [ -n "${VERBOSE:-}" ] && tail -3 "$W/$p.log" | cut -c1-400
  fi
done
echo "MUTANT $name detected_by=[${det[*]:-}] silent=[${miss[*]:-}] other=[${inc[*]:-}]"
