#!/bin/bash
# Quick regression: every kept seeded change against the check of the property it was aimed at.
ROOT="$(cd "$(dirname "$0")/.." && pwd)"
for d in "$ROOT"/seeded/*/; do id=$(basename "$d"); p=${id%%-*}
  r=$("$ROOT/tools/mutant_run.sh" "$d/patch.diff" "$p" | tail -1 | sed 's/^MUTANT patch.diff //')
  echo "$id $r"
done
