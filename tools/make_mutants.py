#!/usr/bin/env python3
"""Builds /verif/mutants/mNN_*.patch from (file, old, new) specifications by
editing a scratch copy of /repo's HEAD under /tmp (removed afterwards)."""
import os
import shutil
import subprocess
import sys
import tempfile

ROOT = os.path.dirname(os.path.dirname(os.path.abspath(__file__)))
P = "checkpoint_schedules/"
H = P + "hrevolve_sequences/"

M = [
 ("m01_multistage_storage_off_by_one", "C01", [(P + "multistage.py",
  "            cp_n = snapshots[-1]\n            cp_storage = self._storage[len(snapshots) - 1]\n",
  "            cp_n = snapshots[-1]\n            cp_storage = self._storage[min(len(snapshots), len(self._storage) - 1)]\n")]),
 ("m02_mixed_move_hardcoded_disk", "C01", [(P + "mixed.py",
  "                yield Move(cp_n, self._storage, StorageType.WORK)",
  "                yield Move(cp_n, StorageType.DISK, StorageType.WORK)")]),
 ("m03_twolevel_first_advance_one_unit_less", "C13", [(P + "twolevel_binomial.py",
  "                        n_snapshots = (self._binomial_snapshots + 1\n                                       - len(snapshots) + 1)\n",
  "                        n_snapshots = max(self._binomial_snapshots + 1\n                                          - len(snapshots), 1)\n")]),
 ("m04_hrevolve_aux_l1_skip_read_when_rd0", "C01", [(H + "hrevolve.py",
  "        if wvect[0] + rvect[0] < rvect[K]:\n            sequence.insert(operation(\"Read\", [0, 0]))\n        else:\n            sequence.insert(operation(\"Read\", [K, 0]))\n",
  "        if wvect[0] + rvect[0] < rvect[K]:\n            sequence.insert(operation(\"Read\", [0, 0]))\n        elif rvect[K] > 0 or K == 0:\n            sequence.insert(operation(\"Read\", [K, 0]))\n")]),
 ("m05_allocate_one_more_ram", "C03", [(P + "multistage.py",
  "                       reverse=True)[:snapshots_in_ram]:",
  "                       reverse=True)[:snapshots_in_ram + 1]:")]),
 ("m06_multistage_copy_instead_of_move_ram", "C04", [(P + "multistage.py",
  "                self._n = cp_n\n                yield Move(cp_n, cp_storage, StorageType.WORK)\n",
  "                self._n = cp_n\n                if cp_storage == StorageType.RAM and len(snapshots) > 1:\n                    yield Copy(cp_n, cp_storage, StorageType.WORK)\n                else:\n                    yield Move(cp_n, cp_storage, StorageType.WORK)\n")]),
 ("m07_n_advance_revolve_lt", "C05", [(P + "multistage.py",
  "        if n <= b_s_tm1 + b_sm2_tm1:\n            return b_s_tm2\n",
  "        if n < b_s_tm1 + b_sm2_tm1:\n            return b_s_tm2\n")]),
 ("m08_n_advance_maximum_one_less", "C05", [(P + "multistage.py",
  "        if n <= b_s_tm1 + b_sm1_tm2:\n            return n - b_s_tm1 + b_s_tm2\n",
  "        if n <= b_s_tm1 + b_sm1_tm2:\n            if snapshots >= 3 and t >= 4:\n                return n - b_s_tm1 + b_s_tm2 - 1\n            return n - b_s_tm1 + b_s_tm2\n")]),
 ("m09_tabulation_tiebreak_lt", "C16", [(P + "mixed.py",
  "                    if schedule[n_i, s_i, 2] < 0 or m1 <= schedule[n_i, s_i, 2]:  # noqa: E501",
  "                    if schedule[n_i, s_i, 2] < 0 or m1 < schedule[n_i, s_i, 2]:  # noqa: E501")]),
 ("m10_memo_s1_off_by_one_large_n", "C06", [(P + "mixed.py",
  "        return (StepType.WRITE_ICS, n - 1, n * (n + 1) // 2 - 1)",
  "        return (StepType.WRITE_ICS, n - 1, n * (n + 1) // 2 - (1 if n <= 130 else 0))")]),
 ("m11_hopt_rvect0", "C07", [(H + "hrevolve.py",
  "                                    [j * uf + opt[k][l - j][m - 1] + rvect[k]\n",
  "                                    [j * uf + opt[k][l - j][m - 1] + rvect[0]\n")]),
 ("m12_twolevel_forgets_r_reset_third_pass", "C08", [(P + "twolevel_binomial.py",
  "            # Reset for new reverse\n\n            self._r = 0\n            yield EndReverse()\n",
  "            # Reset for new reverse\n\n            self._passes = getattr(self, \"_passes\", 0) + 1\n            if self._passes != 3:\n                self._r = 0\n            yield EndReverse()\n            self._r = 0\n")]),
 ("m13_multistage_exhausted_early", "C09", [(P + "multistage.py",
  "            self._r += 1\n            yield Reverse(self._n, self._n - 1, True)\n        if self._r != self._max_n:",
  "            self._r += 1\n            if self._r == self._max_n and self._snapshots_in_ram > 0:\n                self._exhausted = True\n            yield Reverse(self._n, self._n - 1, True)\n        if self._r != self._max_n:")]),
 ("m14_finalize_gt", "C10", [(P + "schedule.py",
  "            if self._n >= n:\n", "            if self._n > n:\n")]),
 ("m15_finalize_drop_set_n", "C10", [(P + "schedule.py",
  "                self._n = n\n                self._max_n = n\n",
  "                self._max_n = n\n")]),
 ("m16_finalize_known_and", "C10", [(P + "schedule.py",
  "        elif self._n != n or self._max_n != n:",
  "        elif self._n != n and self._max_n != n:")]),
 ("m17_multistage_uses_disk_tests_ram", "C11", [(P + "multistage.py",
  "        if storage_type == StorageType.DISK:\n            return self._snapshots_on_disk > 0\n        elif storage_type == StorageType.RAM:\n            return self._snapshots_in_ram > 0\n\n\n@cache_step",
  "        if storage_type == StorageType.DISK:\n            return self._snapshots_in_ram > 0\n        elif storage_type == StorageType.RAM:\n            return self._snapshots_in_ram > 0\n\n\n@cache_step")]),
 ("m18_allocate_sorted_ascending", "C14", [(P + "multistage.py",
  "                       reverse=True)[:snapshots_in_ram]:",
  "                       reverse=False)[:snapshots_in_ram]:")]),
 ("m19_cache_step_key_drops_s_large_n", "C15", [(P + "mixed.py",
  "        s = min(s, n - 1)\n        if (n, s) not in _cache:\n            _cache[(n, s)] = fn(n, s)\n        return _cache[(n, s)]\n",
  "        s = min(s, n - 1)\n        key = (n, s) if n <= 40 else (n, min(s, 3))\n        if key not in _cache:\n            _cache[key] = fn(n, s)\n        return _cache[key]\n")]),
 ("m20_opt0_table_module_cache_without_lmax", "C15", [(H + "revolve.py",
  "    # Build table\n    opt = [Table() for _ in range(mmax + 1)]\n",
  "    # Build table\n    key = (mmax, uf, ub)\n    if key in _OPT0_CACHE and len(_OPT0_CACHE[key][mmax]) > lmax:\n        return _OPT0_CACHE[key]\n    opt = [Table() for _ in range(mmax + 1)]\n    _OPT0_CACHE[key] = opt\n"),
  (H + "revolve.py", "def get_opt_0_table(lmax, mmax, uf, ub, print_table=None):",
   "_OPT0_CACHE = {}\n\n\ndef get_opt_0_table(lmax, mmax, uf, ub, print_table=None):")]),
 ("m21_mixed_no_storage_check", "C17", [(P + "mixed.py",
  "        if storage not in [StorageType.RAM, StorageType.DISK]:\n            raise ValueError(\"Invalid storage\")\n\n        super().__init__(max_n)",
  "        super().__init__(max_n)")]),
 ("m22_max_n_lt_0", "C17", [(P + "schedule.py",
  "        if max_n is not None and max_n < 1:", "        if max_n is not None and max_n < 0:")]),
 ("m23_reverse_iter_ascending", "C18", [(P + "schedule.py",
  "        yield from range(self.n1 - 1, self.n0 - 1, -1)", "        yield from range(self.n0, self.n1)")]),
 ("m24_eq_args_only", "C18", [(P + "schedule.py",
  "        return type(self) is type(other) and self.args == other.args",
  "        return isinstance(other, CheckpointAction) and self.args == other.args")]),
 ("m25_pdr_while_ge", "C19", [(H + "periodic_disk_revolve.py",
  "    while l - current_task > mx:", "    while l - current_task >= mx:")]),
 ("m26_mxrr_lt", "C19", [(H + "periodic_disk_revolve.py",
  "    while beta(cm+1, t) <= (wd + rd) / uf:", "    while beta(cm+1, t) < (wd + rd) / uf:")]),
 ("m41_n_advance_maximum_one_more", "C05", [(P + "multistage.py",
  "        if n <= b_s_tm1 + b_sm1_tm2:\n            return n - b_s_tm1 + b_s_tm2\n",
  "        if n <= b_s_tm1 + b_sm1_tm2:\n            if snapshots >= 3 and t >= 4:\n                return n - b_s_tm1 + b_s_tm2 + 1\n            return n - b_s_tm1 + b_s_tm2\n")]),
 ("m42_n_advance_revolve_last_branch_short", "C05", [(P + "multistage.py",
  "        elif n < b_s_tm1 + b_sm1_tm1 + b_sm2_tm1:\n            return n - b_sm1_tm1 - b_sm2_tm1\n        else:\n            return b_s_tm1\n    else:\n        print(trajectory)",
  "        elif n < b_s_tm1 + b_sm1_tm1 + b_sm2_tm1:\n            return n - b_sm1_tm1 - b_sm2_tm1\n        else:\n            return b_s_tm1 - (1 if t >= 5 else 0)\n    else:\n        print(trajectory)")]),
 ("m43_optimal_extra_steps_s1_formula", "C05", [(P + "multistage.py",
  "    elif s == 1:\n        return n * (n - 1) // 2\n",
  "    elif s == 1:\n        return n * (n - 1) // 2 if n < 64 else (n * (n - 1) + 1) // 2 + n % 2\n")]),
 # further ones, aimed at single monitors
 ("m27_mixed_copy_instead_of_move", "C04", [(P + "mixed.py",
  "            if cp_delete:\n                yield Move(cp_n, self._storage, StorageType.WORK)",
  "            if cp_delete and cp_step_type == StepType.WRITE_ADJ_DEPS:\n                yield Move(cp_n, self._storage, StorageType.WORK)")]),
 ("m28_twolevel_binomial_cp_to_disk_always", "C13", [(P + "twolevel_binomial.py",
  "                            yield Forward(n0, n1, True, False, self._binomial_storage)  # noqa: E501",
  "                            yield Forward(n0, n1, True, False, StorageType.DISK)  # noqa: E501"),
  (P + "twolevel_binomial.py",
   "                            yield Move(cp_n, self._binomial_storage, StorageType.WORK)  # noqa: E501",
   "                            yield Move(cp_n, StorageType.DISK, StorageType.WORK)  # noqa: E501"),
  (P + "twolevel_binomial.py",
   "                            yield Copy(cp_n, self._binomial_storage, StorageType.WORK)  # noqa: E501",
   "                            yield Copy(cp_n, StorageType.DISK, StorageType.WORK)  # noqa: E501")]),
 ("m29_singledisk_n_not_updated", "C08", [(P + "basic_schedules.py",
  "                self._n = n0\n                if self._move_data:",
  "                if self._move_data:")]),
 ("m30_revolve_family_r_counts_late", "C08", [(P + "hrevolve.py",
  "                self._r += 1\n                yield Reverse(n_0, n_1, clear_adj_deps=True)",
  "                yield Reverse(n_0, n_1, clear_adj_deps=True)\n                self._r += 1")]),
 ("m31_operation_shift_shared_table", "C15", [(H + "revolve.py",
  "    if l == 0:  # noqa: E741\n        sequence.insert(operation(\"Write_Forward_memory\", 1))",
  "    if l == 0 and cm in _L0_CACHE:\n        return _L0_CACHE[cm]\n    if l == 0:  # noqa: E741\n        _L0_CACHE[cm] = sequence\n        sequence.insert(operation(\"Write_Forward_memory\", 1))"),
  (H + "revolve.py", "def revolve(l, cm, rd, wd, fwd_cost, bwd_cost, opt_0=None):  # noqa: E741",
   "_L0_CACHE = {}\n\n\ndef revolve(l, cm, rd, wd, fwd_cost, bwd_cost, opt_0=None):  # noqa: E741")]),
 ("m32_disk_revolve_argmin_first", "C07", [(H + "disk_revolve.py",
  "        jmin = argmin(list_mem)\n        sequence.insert(operation(\"Write_disk\", 0))",
  "        jmin = 1 + list_mem.index(min(list_mem)) if l % 7 else max(1, argmin(list_mem) - 1)\n        sequence.insert(operation(\"Write_disk\", 0))")]),
 ("m33_forward_contains_inclusive", "C18", [(P + "schedule.py",
  "class Reverse(CheckpointAction):", "class Reverse(CheckpointAction):"),
  (P + "schedule.py",
   "    def __contains__(self, step):\n        return self.n0 <= step < self.n1\n\n    @property\n    def n0(self):\n        return self.args[0]",
   "    def __contains__(self, step):\n        return self.n0 <= step <= self.n1\n\n    @property\n    def n0(self):\n        return self.args[0]")]),
 ("m34_repr_maxsize_plus", "C18", [(P + "schedule.py",
  "        strargs = tuple(\"sys.maxsize\" if arg == sys.maxsize else repr(arg)",
  "        strargs = tuple(\"sys.maxsize\" if arg >= sys.maxsize else repr(arg)")]),
 ("m35_none_schedule_exhausted_late", "C09", [(P + "basic_schedules.py",
  "        self._exhausted = True\n        yield EndForward()\n",
  "        yield EndForward()\n        self._exhausted = True\n")]),
 ("m36_mixed_second_pass_permitted", "C09", [(P + "mixed.py",
  "        self._exhausted = True\n        yield EndReverse()\n\n    @property",
  "        self._exhausted = True\n        yield EndReverse()\n        self._r = 0\n        yield EndReverse()\n\n    @property")]),
 ("m37_twolevel_uses_storage_ram_only_when_bs", "C11", [(P + "twolevel_binomial.py",
  "        return storage_type in {StorageType.DISK, self._binomial_storage}",
  "        if self._binomial_snapshots > 1:\n            return storage_type in {StorageType.DISK, self._binomial_storage}\n        return storage_type == StorageType.DISK")]),
 ("m38_multistage_overshoot_tape", "C12", [(P + "multistage.py",
  "                n1 = n0 + n_advance(self._max_n - self._r - n0,\n                                    n_snapshots,\n                                    trajectory=self._trajectory)\n                assert n1 > n0\n                self._n = n1\n                yield Forward(n0, n1, False, False, StorageType.WORK)\n",
  "                n1 = n0 + n_advance(self._max_n - self._r - n0,\n                                    n_snapshots,\n                                    trajectory=self._trajectory)\n                assert n1 > n0\n                self._n = n1\n                yield Forward(n0, n1, False, n1 - n0 == 2, StorageType.WORK)\n")]),
 ("m39_hrevolve_double_write", "C03", [(P + "hrevolve.py",
  "                    write_ics = True\n                    adj_deps = False\n                    snapshots.add((w_storage, w_n0))",
  "                    write_ics = True\n                    adj_deps = (n_1 - n_0 == 1 and w_storage == StorageType.DISK)\n                    snapshots.add((w_storage, w_n0))")]),
 ("m40_twolevel_reverse_before_endforward", "C02", [(P + "twolevel_binomial.py",
  "        yield EndForward()\n\n        while True:\n            # Reverse",
  "        if self._max_n % 11 != 0:\n            yield EndForward()\n\n        while True:\n            # Reverse")]),
]


def main():
    out = os.path.join(ROOT, "mutants")
    os.makedirs(out, exist_ok=True)
    work = tempfile.mkdtemp(prefix="mkmut-")
    try:
        subprocess.run(f"cd /repo && git archive HEAD | tar -x -C {work}",
                       shell=True, check=True)
        subprocess.run("git init -q && git add -A && git -c user.email=a@b "
                       "-c user.name=x commit -qm base", shell=True, cwd=work,
                       check=True)
        for name, prop, edits in M:
            ok = True
            for (f, old, new) in edits:
                path = os.path.join(work, f)
                s = open(path).read()
                if old == new:
                    continue
                if s.count(old) != 1:
                    print("SPEC-MISMATCH", name, f, s.count(old))
                    ok = False
                    break
                open(path, "w").write(s.replace(old, new))
            if ok:
                d = subprocess.run("git diff", shell=True, cwd=work,
                                   capture_output=True, text=True).stdout
                hdr = f"# mutant {name}: targets {prop}\n"
                open(os.path.join(out, name + ".patch"), "w").write(d)
                # syntax check
                for (f, _, _) in edits:
                    r = subprocess.run([sys.executable, "-m", "py_compile",
                                        os.path.join(work, f)],
                                       capture_output=True, text=True)
                    if r.returncode:
                        print("SYNTAX", name, r.stderr[-300:])
            subprocess.run("git checkout -q -- . && git clean -fdq",
                           shell=True, cwd=work)
        with open(os.path.join(out, "TARGETS.txt"), "w") as f:
            for name, prop, _ in M:
                f.write(f"{name} {prop}\n")
    finally:
        shutil.rmtree(work, ignore_errors=True)


if __name__ == "__main__":
    main()
